// Command instrument rewrites library packages for engine E3 (controlled scheduler):
//
//   - imports "sync", "net", "time", "math/rand" are redirected to the shims mounted (by the
//     build overlay) at github.com/TheManticoreProject/Manticore/zz_verif/{vsync,vnet,vtime,vrand};
//   - `go f(a,b)` becomes { f0,a0,b0 := f,a,b; vrt.Go(func(){ f0(a0,b0) }) } (operands evaluated
//     at the go statement, as the language specifies);
//   - channel operations become visible to the scheduler: close → Point;close;Progress,
//     select with default → Point before it (+Progress in each taken case), blocking select →
//     hoisted operands + poll loop with vrt.Yield + bodies moved into a switch, bare send/receive
//     → vrt.Send / vrt.Recv / vrt.Recv2.
//
// It writes the rewritten files and an overlay JSON that also mounts the shim packages.
// Anything it cannot handle is a hard error (exit 2 upstream): code is never passed through
// un-instrumented silently.
package main

import (
	"bytes"
	"encoding/json"
	"flag"
	"fmt"
	"go/ast"
	"go/format"
	"go/importer"
	"go/parser"
	"go/token"
	"go/types"
	"os"
	"path/filepath"
	"strconv"
	"strings"
)

const modPrefix = "github.com/TheManticoreProject/Manticore/zz_verif/"

var redirect = map[string]string{
	"sync":         "vsync",
	"net":          "vnet",
	"time":         "vtime",
	"math/rand":    "vrand",
	"sync/atomic":  "vatomic",
	"context":      "vcontext",
	"hash/maphash": "vmaphash",
}

func fatalf(f string, a ...any) {
	fmt.Fprintf(os.Stderr, "instrument: "+f+"\n", a...)
	os.Exit(2)
}

func main() {
	repo := flag.String("repo", "/repo", "repository root (working tree)")
	out := flag.String("out", "", "output directory for rewritten files")
	pkgs := flag.String("pkgs", "", "comma separated package dirs relative to repo")
	shim := flag.String("shim", "", "directory holding shim packages (vrt, vsync, vnet, vtime, vrand)")
	extra := flag.String("extra", "", "comma separated extra overlay mappings virtualRelPath=realFile")
	ovl := flag.String("overlay", "", "overlay json to write")
	flag.Parse()
	if *out == "" || *pkgs == "" || *shim == "" || *ovl == "" {
		fatalf("missing flags")
	}
	for _, p := range []*string{repo, out, shim, ovl} {
		a, err := filepath.Abs(*p)
		if err != nil {
			fatalf("%v", err)
		}
		*p = a
	}
	replace := map[string]string{}
	usesTryLock := false
	os.MkdirAll(*out, 0o755)
	nfiles, ngo, nsel, nchan := 0, 0, 0, 0
	for _, p := range strings.Split(*pkgs, ",") {
		dir := filepath.Join(*repo, p)
		ents, err := os.ReadDir(dir)
		if err != nil {
			fatalf("%v", err)
		}
		pfset, pfiles, pinfo := typeCheck(dir, ents)
		for _, e := range ents {
			n := e.Name()
			if e.IsDir() || !strings.HasSuffix(n, ".go") || strings.HasSuffix(n, "_test.go") {
				continue
			}
			src := filepath.Join(dir, n)
			if raw, err := os.ReadFile(src); err == nil && (bytes.Contains(raw, []byte(".TryLock(")) || bytes.Contains(raw, []byte(".TryRLock("))) {
				usesTryLock = true
			}
			in := &inst{fset: token.NewFileSet(), file: src}
			if pf := pfiles[src]; pf != nil {
				in.fset, in.parsed, in.info = pfset, pf, pinfo
			}
			b, err := in.rewrite()
			if err != nil {
				fatalf("%s: %v", src, err)
			}
			dst := filepath.Join(*out, strings.ReplaceAll(p, "/", "_")+"__"+n)
			if err := os.WriteFile(dst, b, 0o644); err != nil {
				fatalf("%v", err)
			}
			replace[src] = dst
			nfiles++
			ngo += in.ngo
			nsel += in.nsel
			nchan += in.nchan
		}
	}
	for _, sp := range []string{"vrt", "vsync", "vnet", "vtime", "vrand", "vatomic", "vcontext", "vmaphash"} {
		ents, err := os.ReadDir(filepath.Join(*shim, sp))
		if err != nil {
			fatalf("%v", err)
		}
		for _, e := range ents {
			if strings.HasSuffix(e.Name(), ".go") && !strings.HasSuffix(e.Name(), "_test.go") {
				replace[filepath.Join(*repo, "zz_verif", sp, e.Name())] = filepath.Join(*shim, sp, e.Name())
			}
		}
	}
	if usesTryLock {
		// the outcome of TryLock depends on who holds the lock right now: make "lock held" a visible state
		hint := filepath.Join(*out, "zz_tryhint.go")
		if err := os.WriteFile(hint, []byte("package vrt\n\nfunc init() { AcquirePoints = true }\n"), 0o644); err != nil {
			fatalf("%v", err)
		}
		replace[filepath.Join(*repo, "zz_verif", "vrt", "zz_tryhint.go")] = hint
	}
	if *extra != "" {
		for _, kv := range strings.Split(*extra, ",") {
			i := strings.IndexByte(kv, '=')
			if i < 0 {
				fatalf("bad -extra %q", kv)
			}
			replace[filepath.Join(*repo, kv[:i])] = kv[i+1:]
		}
	}
	jb, _ := json.MarshalIndent(map[string]any{"Replace": replace}, "", " ")
	if err := os.WriteFile(*ovl, jb, 0o644); err != nil {
		fatalf("%v", err)
	}
	fmt.Printf("instrumented files=%d go-statements=%d selects=%d channel-ops=%d\n", nfiles, ngo, nsel, nchan)
}

// typeCheck parses the non-test files of one package and computes the types of its expressions (imports are
// type-checked from source, which works offline). The instrumenter needs types for exactly two things: telling
// a range over a CHANNEL (a blocking receive per iteration) and a range over a MAP (iteration order chosen by
// the runtime) from other range statements. If anything fails the package is instrumented without types.
var srcImporter types.Importer

func typeCheck(dir string, ents []os.DirEntry) (*token.FileSet, map[string]*ast.File, *types.Info) {
	fset := token.NewFileSet()
	files := map[string]*ast.File{}
	var list []*ast.File
	for _, e := range ents {
		n := e.Name()
		if e.IsDir() || !strings.HasSuffix(n, ".go") || strings.HasSuffix(n, "_test.go") {
			continue
		}
		f, err := parser.ParseFile(fset, filepath.Join(dir, n), nil, parser.SkipObjectResolution)
		if err != nil {
			return nil, map[string]*ast.File{}, nil
		}
		files[filepath.Join(dir, n)] = f
		list = append(list, f)
	}
	if srcImporter == nil {
		srcImporter = importer.ForCompiler(fset, "source", nil)
	}
	info := &types.Info{Types: map[ast.Expr]types.TypeAndValue{}}
	conf := types.Config{Importer: srcImporter, Error: func(error) {}}
	func() {
		defer func() {
			if recover() != nil {
				info = nil
			}
		}()
		conf.Check(dir, fset, list, info)
	}()
	return fset, files, info
}

type inst struct {
	fset    *token.FileSet
	file    string
	parsed  *ast.File   // already parsed (and type-checked) syntax tree of file, or nil
	info    *types.Info // type information of the package, or nil when it could not be computed
	usesVrt bool
	tmp     int
	ngo     int
	nsel    int
	nchan   int
	err     error
}

func (in *inst) fail(n ast.Node, f string, a ...any) {
	if in.err == nil {
		in.err = fmt.Errorf("%s: %s", in.fset.Position(n.Pos()), fmt.Sprintf(f, a...))
	}
}

func (in *inst) name(prefix string) *ast.Ident {
	in.tmp++
	return ast.NewIdent(fmt.Sprintf("_v%s%d", prefix, in.tmp))
}

func (in *inst) vrtCall(fn string, args ...ast.Expr) *ast.CallExpr {
	in.usesVrt = true
	return &ast.CallExpr{Fun: &ast.SelectorExpr{X: ast.NewIdent("vrt"), Sel: ast.NewIdent(fn)}, Args: args}
}
func (in *inst) vrtStmt(fn string, args ...ast.Expr) ast.Stmt {
	return &ast.ExprStmt{X: in.vrtCall(fn, args...)}
}
func strLit(s string) ast.Expr { return &ast.BasicLit{Kind: token.STRING, Value: strconv.Quote(s)} }

func (in *inst) rewrite() ([]byte, error) {
	f := in.parsed
	if f == nil {
		var err error
		f, err = parser.ParseFile(in.fset, in.file, nil, parser.SkipObjectResolution)
		if err != nil {
			return nil, err
		}
	}
	for _, im := range f.Imports {
		p, _ := strconv.Unquote(im.Path.Value)
		sh, ok := redirect[p]
		if !ok {
			if p == "os/signal" {
				return nil, fmt.Errorf("import %q is not simulated by the E3 shims", p)
			}
			continue
		}
		if im.Name != nil && (im.Name.Name == "_" || im.Name.Name == ".") {
			return nil, fmt.Errorf("blank/dot import of %q cannot be redirected", p)
		}
		if im.Name == nil {
			base := p[strings.LastIndex(p, "/")+1:]
			im.Name = ast.NewIdent(base)
		}
		im.Path.Value = strconv.Quote(modPrefix + sh)
	}
	for _, d := range f.Decls {
		switch d := d.(type) {
		case *ast.FuncDecl:
			if d.Body != nil {
				d.Body.List = in.stmts(d.Body.List)
			}
		case *ast.GenDecl:
			for _, sp := range d.Specs {
				if vs, ok := sp.(*ast.ValueSpec); ok {
					for i, v := range vs.Values {
						vs.Values[i] = in.expr(v)
					}
				}
			}
		}
	}
	if in.err != nil {
		return nil, in.err
	}
	if in.usesVrt {
		imp := &ast.GenDecl{Tok: token.IMPORT, Specs: []ast.Spec{&ast.ImportSpec{Name: ast.NewIdent("vrt"), Path: &ast.BasicLit{Kind: token.STRING, Value: strconv.Quote(modPrefix + "vrt")}}}}
		f.Decls = append([]ast.Decl{imp}, f.Decls...)
	}
	var buf bytes.Buffer
	if err := format.Node(&buf, token.NewFileSet(), f); err != nil {
		return nil, err
	}
	hdr := fmt.Sprintf("// Code generated by /verif/cmd/instrument from %s. DO NOT EDIT.\n\n", in.file)
	return append([]byte(hdr), buf.Bytes()...), nil
}

// ---------------------------------------------------------------- statements

func (in *inst) block(b *ast.BlockStmt) {
	if b != nil {
		b.List = in.stmts(b.List)
	}
}

func (in *inst) stmts(list []ast.Stmt) []ast.Stmt {
	var out []ast.Stmt
	for _, s := range list {
		out = append(out, in.stmt(s)...)
	}
	return out
}

func isClose(e ast.Expr) bool {
	c, ok := e.(*ast.CallExpr)
	if !ok {
		return false
	}
	id, ok := c.Fun.(*ast.Ident)
	return ok && id.Name == "close" && len(c.Args) == 1
}

func isRecv(e ast.Expr) (*ast.UnaryExpr, bool) {
	for {
		if p, ok := e.(*ast.ParenExpr); ok {
			e = p.X
			continue
		}
		break
	}
	u, ok := e.(*ast.UnaryExpr)
	if ok && u.Op == token.ARROW {
		return u, true
	}
	return nil, false
}

func (in *inst) stmt(s ast.Stmt) []ast.Stmt {
	switch s := s.(type) {
	case nil:
		return nil
	case *ast.GoStmt:
		return []ast.Stmt{in.goStmt(s)}
	case *ast.SendStmt:
		in.nchan++
		return []ast.Stmt{in.vrtStmt("Send", in.expr(s.Chan), in.expr(s.Value))}
	case *ast.ExprStmt:
		if isClose(s.X) {
			in.nchan++
			c := s.X.(*ast.CallExpr)
			c.Args[0] = in.expr(c.Args[0])
			return []ast.Stmt{in.vrtStmt("PointD", strLit("close")), s, in.vrtStmt("Progress")}
		}
		s.X = in.expr(s.X)
		return []ast.Stmt{s}
	case *ast.AssignStmt:
		if len(s.Lhs) == 2 && len(s.Rhs) == 1 {
			if u, ok := isRecv(s.Rhs[0]); ok {
				in.nchan++
				s.Rhs[0] = in.vrtCall("Recv2", in.expr(u.X))
				for i := range s.Lhs {
					s.Lhs[i] = in.expr(s.Lhs[i])
				}
				return []ast.Stmt{s}
			}
		}
		for i := range s.Lhs {
			s.Lhs[i] = in.expr(s.Lhs[i])
		}
		for i := range s.Rhs {
			s.Rhs[i] = in.expr(s.Rhs[i])
		}
		return []ast.Stmt{s}
	case *ast.DeclStmt:
		if gd, ok := s.Decl.(*ast.GenDecl); ok {
			for _, sp := range gd.Specs {
				if vs, ok := sp.(*ast.ValueSpec); ok {
					if len(vs.Names) == 2 && len(vs.Values) == 1 {
						if u, ok := isRecv(vs.Values[0]); ok {
							in.nchan++
							vs.Values[0] = in.vrtCall("Recv2", in.expr(u.X))
							continue
						}
					}
					for i, v := range vs.Values {
						vs.Values[i] = in.expr(v)
					}
				}
			}
		}
		return []ast.Stmt{s}
	case *ast.ReturnStmt:
		for i := range s.Results {
			s.Results[i] = in.expr(s.Results[i])
		}
		return []ast.Stmt{s}
	case *ast.IncDecStmt:
		s.X = in.expr(s.X)
		return []ast.Stmt{s}
	case *ast.DeferStmt:
		s.Call = in.expr(s.Call).(*ast.CallExpr)
		return []ast.Stmt{s}
	case *ast.BlockStmt:
		in.block(s)
		return []ast.Stmt{s}
	case *ast.IfStmt:
		in.ifStmt(s)
		return []ast.Stmt{s}
	case *ast.ForStmt:
		s.Init = in.simple(s.Init)
		if s.Cond != nil {
			s.Cond = in.expr(s.Cond)
		}
		s.Post = in.simple(s.Post)
		in.block(s.Body)
		return []ast.Stmt{s}
	case *ast.RangeStmt:
		kind := in.rangeKind(s.X)
		s.X = in.expr(s.X)
		in.block(s.Body)
		if r := in.rangeRewrite(s, kind); r != nil {
			return []ast.Stmt{r}
		}
		return []ast.Stmt{s}
	case *ast.SwitchStmt:
		s.Init = in.simple(s.Init)
		if s.Tag != nil {
			s.Tag = in.expr(s.Tag)
		}
		in.caseBodies(s.Body)
		return []ast.Stmt{s}
	case *ast.TypeSwitchStmt:
		s.Init = in.simple(s.Init)
		in.caseBodies(s.Body)
		return []ast.Stmt{s}
	case *ast.LabeledStmt:
		if sel, ok := s.Stmt.(*ast.SelectStmt); ok {
			r := in.selectStmt(sel, s.Label)
			return r
		}
		r := in.stmt(s.Stmt)
		if len(r) == 1 {
			s.Stmt = r[0]
			return []ast.Stmt{s}
		}
		s.Stmt = &ast.BlockStmt{List: r}
		return []ast.Stmt{s}
	case *ast.SelectStmt:
		return in.selectStmt(s, nil)
	case *ast.BranchStmt, *ast.EmptyStmt:
		return []ast.Stmt{s}
	default:
		in.fail(s, "unhandled statement %T", s)
		return []ast.Stmt{s}
	}
}

// rangeKind: 'c' range over a channel, 'm' range over a map whose keys have a total order, 0 anything else/unknown.
func (in *inst) rangeKind(x ast.Expr) byte {
	if in.info == nil {
		return 0
	}
	tv, ok := in.info.Types[x]
	if !ok || tv.Type == nil {
		return 0
	}
	switch t := tv.Type.Underlying().(type) {
	case *types.Chan:
		return 'c'
	case *types.Map:
		if b, ok := t.Key().Underlying().(*types.Basic); ok && b.Info()&(types.IsInteger|types.IsString|types.IsFloat) != 0 {
			return 'm'
		}
	}
	return 0
}

func pureOperand(e ast.Expr) bool {
	switch e := e.(type) {
	case *ast.Ident:
		return true
	case *ast.SelectorExpr:
		return pureOperand(e.X)
	case *ast.ParenExpr:
		return pureOperand(e.X)
	}
	return false
}

// rangeRewrite makes the two kinds of range statement whose behaviour the Go runtime decides visible to the
// scheduler: a range over a channel becomes a loop of instrumented receives; a range over a map with ordered
// keys visits the keys in sorted order (entries deleted meanwhile are skipped) — one of the orders Go allows.
func (in *inst) rangeRewrite(s *ast.RangeStmt, kind byte) ast.Stmt {
	use := func(id *ast.Ident) ast.Expr { return ast.NewIdent(id.Name) }
	blank := func(e ast.Expr) bool {
		if e == nil {
			return true
		}
		id, ok := e.(*ast.Ident)
		return ok && id.Name == "_"
	}
	switch kind {
	case 'c':
		if s.Value != nil {
			return nil
		}
		in.nchan++
		chv, okv, valv := in.name("c"), in.name("k"), in.name("r")
		recv := &ast.AssignStmt{Lhs: []ast.Expr{valv, okv}, Tok: token.DEFINE, Rhs: []ast.Expr{in.vrtCall("Recv2", use(chv))}}
		body := []ast.Stmt{recv,
			&ast.IfStmt{Cond: &ast.UnaryExpr{Op: token.NOT, X: use(okv)}, Body: &ast.BlockStmt{List: []ast.Stmt{&ast.BranchStmt{Tok: token.BREAK}}}}}
		if blank(s.Key) {
			body = append(body, &ast.AssignStmt{Lhs: []ast.Expr{ast.NewIdent("_")}, Tok: token.ASSIGN, Rhs: []ast.Expr{use(valv)}})
		} else {
			tok := s.Tok
			if tok != token.DEFINE {
				tok = token.ASSIGN
			}
			body = append(body, &ast.AssignStmt{Lhs: []ast.Expr{s.Key}, Tok: tok, Rhs: []ast.Expr{use(valv)}})
			if tok == token.DEFINE {
				if id, ok := s.Key.(*ast.Ident); ok {
					body = append(body, &ast.AssignStmt{Lhs: []ast.Expr{ast.NewIdent("_")}, Tok: token.ASSIGN, Rhs: []ast.Expr{ast.NewIdent(id.Name)}})
				}
			}
		}
		// the original body runs in its own block so that its declarations cannot clash with the loop's temporaries
		body = append(body, s.Body)
		return &ast.ForStmt{
			Init: &ast.AssignStmt{Lhs: []ast.Expr{chv}, Tok: token.DEFINE, Rhs: []ast.Expr{s.X}},
			Body: &ast.BlockStmt{List: body},
		}
	case 'm':
		if s.Tok != token.DEFINE && !(blank(s.Key) && blank(s.Value)) || !pureOperand(s.X) {
			return nil
		}
		kv := in.name("mk")
		var pre []ast.Stmt
		if !blank(s.Value) {
			okv := in.name("k")
			pre = append(pre,
				&ast.AssignStmt{Lhs: []ast.Expr{s.Value, okv}, Tok: token.DEFINE, Rhs: []ast.Expr{&ast.IndexExpr{X: s.X, Index: use(kv)}}},
				&ast.IfStmt{Cond: &ast.UnaryExpr{Op: token.NOT, X: use(okv)}, Body: &ast.BlockStmt{List: []ast.Stmt{&ast.BranchStmt{Tok: token.CONTINUE}}}})
			if id, ok := s.Value.(*ast.Ident); ok {
				pre = append(pre, &ast.AssignStmt{Lhs: []ast.Expr{ast.NewIdent("_")}, Tok: token.ASSIGN, Rhs: []ast.Expr{ast.NewIdent(id.Name)}})
			}
		} else {
			okv := in.name("k")
			pre = append(pre,
				&ast.AssignStmt{Lhs: []ast.Expr{ast.NewIdent("_"), okv}, Tok: token.DEFINE, Rhs: []ast.Expr{&ast.IndexExpr{X: s.X, Index: use(kv)}}},
				&ast.IfStmt{Cond: &ast.UnaryExpr{Op: token.NOT, X: use(okv)}, Body: &ast.BlockStmt{List: []ast.Stmt{&ast.BranchStmt{Tok: token.CONTINUE}}}})
		}
		if !blank(s.Key) {
			pre = append(pre, &ast.AssignStmt{Lhs: []ast.Expr{s.Key}, Tok: token.DEFINE, Rhs: []ast.Expr{use(kv)}})
			if id, ok := s.Key.(*ast.Ident); ok {
				pre = append(pre, &ast.AssignStmt{Lhs: []ast.Expr{ast.NewIdent("_")}, Tok: token.ASSIGN, Rhs: []ast.Expr{ast.NewIdent(id.Name)}})
			}
		}
		return &ast.RangeStmt{Key: ast.NewIdent("_"), Value: kv, Tok: token.DEFINE, X: in.vrtCall("SortedKeys", s.X),
			Body: &ast.BlockStmt{List: append(pre, s.Body)}}
	}
	return nil
}

func (in *inst) simple(s ast.Stmt) ast.Stmt {
	if s == nil {
		return nil
	}
	r := in.stmt(s)
	if len(r) != 1 {
		in.fail(s, "channel operation in a for/if/switch header is not supported")
		return s
	}
	return r[0]
}

func (in *inst) ifStmt(s *ast.IfStmt) {
	s.Init = in.simple(s.Init)
	s.Cond = in.expr(s.Cond)
	in.block(s.Body)
	switch e := s.Else.(type) {
	case *ast.IfStmt:
		in.ifStmt(e)
	case *ast.BlockStmt:
		in.block(e)
	}
}

func (in *inst) caseBodies(b *ast.BlockStmt) {
	for _, c := range b.List {
		cc := c.(*ast.CaseClause)
		for i := range cc.List {
			cc.List[i] = in.expr(cc.List[i])
		}
		cc.Body = in.stmts(cc.Body)
	}
}

func (in *inst) goStmt(g *ast.GoStmt) ast.Stmt {
	in.ngo++
	call := g.Call
	var pre []ast.Stmt
	assign := func(prefix string, e ast.Expr) ast.Expr {
		id := in.name(prefix)
		pre = append(pre, &ast.AssignStmt{Lhs: []ast.Expr{id}, Tok: token.DEFINE, Rhs: []ast.Expr{in.expr(e)}})
		return ast.NewIdent(id.Name)
	}
	var fun ast.Expr
	if fl, ok := call.Fun.(*ast.FuncLit); ok {
		in.block(fl.Body)
		fun = fl
	} else {
		fun = assign("f", call.Fun)
	}
	args := make([]ast.Expr, len(call.Args))
	for i, a := range call.Args {
		args[i] = assign("a", a)
	}
	inner := &ast.CallExpr{Fun: fun, Args: args, Ellipsis: call.Ellipsis}
	if call.Ellipsis != token.NoPos {
		inner.Ellipsis = 1
	}
	lit := &ast.FuncLit{Type: &ast.FuncType{Params: &ast.FieldList{}}, Body: &ast.BlockStmt{List: []ast.Stmt{&ast.ExprStmt{X: inner}}}}
	pre = append(pre, in.vrtStmt("Go", lit))
	return &ast.BlockStmt{List: pre}
}

func hasDefault(s *ast.SelectStmt) bool {
	for _, c := range s.Body.List {
		if c.(*ast.CommClause).Comm == nil {
			return true
		}
	}
	return false
}

func (in *inst) selectStmt(s *ast.SelectStmt, label *ast.Ident) []ast.Stmt {
	in.nsel++
	wrap := func(st ast.Stmt) ast.Stmt {
		if label != nil {
			return &ast.LabeledStmt{Label: label, Stmt: st}
		}
		return st
	}
	if len(s.Body.List) == 0 {
		// select {} blocks forever
		return []ast.Stmt{wrap(&ast.ForStmt{Body: &ast.BlockStmt{List: []ast.Stmt{in.vrtStmt("Yield")}}})}
	}
	ncomm := 0
	var defClause *ast.CommClause
	for _, c := range s.Body.List {
		if cc := c.(*ast.CommClause); cc.Comm == nil {
			defClause = cc
		} else {
			ncomm++
		}
	}
	if defClause != nil && ncomm < 2 {
		// at most one communication: nothing for the runtime to choose between
		for _, c := range s.Body.List {
			cc := c.(*ast.CommClause)
			cc.Body = in.stmts(cc.Body)
			if cc.Comm != nil {
				in.commOperands(cc)
				cc.Body = append([]ast.Stmt{in.vrtStmt("Progress")}, cc.Body...)
			}
		}
		return []ast.Stmt{in.vrtStmt("PointD", strLit("select")), wrap(s)}
	}
	// General form. Go picks uniformly at random among the communications that are ready; the harness must own
	// that choice: operands are hoisted, the cases are polled ONE AT A TIME (single-case non-blocking selects) in
	// the rotation vrt.SelectOrder decides (source order by default, every other rotation one deviation), a
	// blocking select repeats the round with a Yield in between, and the chosen body runs in a switch afterwards.
	var pre []ast.Stmt
	def := func(prefix string, e ast.Expr) *ast.Ident {
		id := in.name(prefix)
		pre = append(pre, &ast.AssignStmt{Lhs: []ast.Expr{id}, Tok: token.DEFINE, Rhs: []ast.Expr{e}})
		return id
	}
	use := func(id *ast.Ident) ast.Expr { return ast.NewIdent(id.Name) }
	lit := func(i int) ast.Expr { return &ast.BasicLit{Kind: token.INT, Value: strconv.Itoa(i)} }
	selv := def("sel", lit(0))
	var polls []ast.Stmt // case k: select { case comm_k: sel = k+1; Progress; default: }
	var cases []ast.Stmt
	k := 0
	for _, c := range s.Body.List {
		cc := c.(*ast.CommClause)
		if cc.Comm == nil {
			continue
		}
		body := in.stmts(cc.Body)
		var comm ast.Stmt
		var bind []ast.Stmt
		switch cm := cc.Comm.(type) {
		case *ast.SendStmt:
			ch := def("c", in.expr(cm.Chan))
			v := def("s", in.expr(cm.Value))
			comm = &ast.SendStmt{Chan: use(ch), Value: use(v)}
		case *ast.ExprStmt:
			u, ok := isRecv(cm.X)
			if !ok {
				in.fail(cm, "unexpected select communication")
				continue
			}
			ch := def("c", in.expr(u.X))
			comm = &ast.ExprStmt{X: &ast.UnaryExpr{Op: token.ARROW, X: use(ch)}}
		case *ast.AssignStmt:
			u, ok := isRecv(cm.Rhs[0])
			if !ok || len(cm.Lhs) > 2 {
				in.fail(cm, "unexpected select communication")
				continue
			}
			ch := def("c", in.expr(u.X))
			rv := def("r", in.vrtCall("Zero", use(ch)))
			okv := def("k", ast.NewIdent("false"))
			pre = append(pre, &ast.AssignStmt{Lhs: []ast.Expr{ast.NewIdent("_"), ast.NewIdent("_")}, Tok: token.ASSIGN, Rhs: []ast.Expr{use(rv), use(okv)}})
			comm = &ast.AssignStmt{Lhs: []ast.Expr{use(rv), use(okv)}, Tok: token.ASSIGN, Rhs: []ast.Expr{&ast.UnaryExpr{Op: token.ARROW, X: use(ch)}}}
			rhs := []ast.Expr{use(rv)}
			if len(cm.Lhs) == 2 {
				rhs = append(rhs, use(okv))
			}
			bind = append(bind, &ast.AssignStmt{Lhs: cm.Lhs, Tok: cm.Tok, Rhs: rhs})
			if cm.Tok == token.DEFINE {
				// avoid "declared and not used" when the original body ignores a bound name
				for _, l := range cm.Lhs {
					if id, ok := l.(*ast.Ident); ok && id.Name != "_" {
						bind = append(bind, &ast.AssignStmt{Lhs: []ast.Expr{ast.NewIdent("_")}, Tok: token.ASSIGN, Rhs: []ast.Expr{ast.NewIdent(id.Name)}})
					}
				}
			}
		}
		one := &ast.SelectStmt{Body: &ast.BlockStmt{List: []ast.Stmt{
			&ast.CommClause{Comm: comm, Body: []ast.Stmt{
				&ast.AssignStmt{Lhs: []ast.Expr{use(selv)}, Tok: token.ASSIGN, Rhs: []ast.Expr{lit(k + 1)}},
				in.vrtStmt("Progress"),
			}},
			&ast.CommClause{Comm: nil},
		}}}
		polls = append(polls, &ast.CaseClause{List: []ast.Expr{lit(k)}, Body: []ast.Stmt{one}})
		cl := &ast.CaseClause{List: []ast.Expr{lit(k + 1)}, Body: append(bind, body...)}
		cases = append(cases, cl)
		k++
	}
	n := k
	if defClause != nil {
		cases = append(cases, &ast.CaseClause{List: nil, Body: in.stmts(defClause.Body)})
	} else if len(cases) > 0 {
		cases[len(cases)-1].(*ast.CaseClause).List = nil // default: keeps the statement terminating when every body returns
	}
	startv := def("o", in.vrtCall("SelectOrder", lit(n)))
	kv := in.name("i")
	round := &ast.ForStmt{
		Init: &ast.AssignStmt{Lhs: []ast.Expr{kv}, Tok: token.DEFINE, Rhs: []ast.Expr{lit(0)}},
		Cond: &ast.BinaryExpr{X: &ast.BinaryExpr{X: use(kv), Op: token.LSS, Y: lit(n)}, Op: token.LAND, Y: &ast.BinaryExpr{X: use(selv), Op: token.EQL, Y: lit(0)}},
		Post: &ast.IncDecStmt{X: use(kv), Tok: token.INC},
		Body: &ast.BlockStmt{List: []ast.Stmt{
			&ast.SwitchStmt{Tag: &ast.BinaryExpr{X: &ast.ParenExpr{X: &ast.BinaryExpr{X: use(startv), Op: token.ADD, Y: use(kv)}}, Op: token.REM, Y: lit(n)}, Body: &ast.BlockStmt{List: polls}},
		}},
	}
	var drive ast.Stmt
	if defClause != nil {
		drive = &ast.BlockStmt{List: []ast.Stmt{in.vrtStmt("PointD", strLit("select")), round}}
	} else {
		drive = &ast.ForStmt{Body: &ast.BlockStmt{List: []ast.Stmt{
			in.vrtStmt("PointD", strLit("select")),
			round,
			&ast.IfStmt{Cond: &ast.BinaryExpr{X: use(selv), Op: token.EQL, Y: lit(0)}, Body: &ast.BlockStmt{List: []ast.Stmt{in.vrtStmt("Yield"), &ast.BranchStmt{Tok: token.CONTINUE}}}},
			&ast.BranchStmt{Tok: token.BREAK},
		}}}
	}
	sw := wrap(&ast.SwitchStmt{Tag: use(selv), Body: &ast.BlockStmt{List: cases}})
	return []ast.Stmt{&ast.BlockStmt{List: append(append(pre, drive), sw)}}
}

// commOperands rewrites nested expressions of a comm clause without touching its own channel operation.
func (in *inst) commOperands(cc *ast.CommClause) {
	switch cm := cc.Comm.(type) {
	case *ast.SendStmt:
		cm.Chan = in.expr(cm.Chan)
		cm.Value = in.expr(cm.Value)
	case *ast.ExprStmt:
		if u, ok := isRecv(cm.X); ok {
			u.X = in.expr(u.X)
		}
	case *ast.AssignStmt:
		if u, ok := isRecv(cm.Rhs[0]); ok {
			u.X = in.expr(u.X)
		}
	}
}

// ---------------------------------------------------------------- expressions

func (in *inst) exprs(l []ast.Expr) {
	for i := range l {
		l[i] = in.expr(l[i])
	}
}

func (in *inst) expr(e ast.Expr) ast.Expr {
	switch e := e.(type) {
	case nil:
		return nil
	case *ast.UnaryExpr:
		if e.Op == token.ARROW {
			in.nchan++
			return in.vrtCall("Recv", in.expr(e.X))
		}
		e.X = in.expr(e.X)
		return e
	case *ast.FuncLit:
		in.block(e.Body)
		return e
	case *ast.CallExpr:
		e.Fun = in.expr(e.Fun)
		in.exprs(e.Args)
		return e
	case *ast.ParenExpr:
		e.X = in.expr(e.X)
		return e
	case *ast.BinaryExpr:
		e.X = in.expr(e.X)
		e.Y = in.expr(e.Y)
		return e
	case *ast.SelectorExpr:
		e.X = in.expr(e.X)
		return e
	case *ast.StarExpr:
		e.X = in.expr(e.X)
		return e
	case *ast.IndexExpr:
		e.X = in.expr(e.X)
		e.Index = in.expr(e.Index)
		return e
	case *ast.IndexListExpr:
		e.X = in.expr(e.X)
		return e
	case *ast.SliceExpr:
		e.X = in.expr(e.X)
		e.Low = in.expr(e.Low)
		e.High = in.expr(e.High)
		e.Max = in.expr(e.Max)
		return e
	case *ast.TypeAssertExpr:
		e.X = in.expr(e.X)
		return e
	case *ast.KeyValueExpr:
		e.Key = in.expr(e.Key)
		e.Value = in.expr(e.Value)
		return e
	case *ast.CompositeLit:
		in.exprs(e.Elts)
		return e
	default:
		// identifiers, literals, type expressions
		return e
	}
}
