// Package vf is the common harness of every /verif check: obligations with
// stable keys, known-finding triage, evidence writing, VIOLATION protocol.
package vf

import (
	"crypto/sha256"
	"encoding/hex"
	"encoding/json"
	"flag"
	"fmt"
	"hash/fnv"
	"os"
	"os/exec"
	"path/filepath"
	"runtime"
	"runtime/debug"
	"sort"
	"strconv"
	"strings"
	"sync"
	"time"
)

// Obl is one fine-grained obligation of a property.
type Obl struct {
	Key      string
	Evals    int64
	Fails    int64
	Witness  string // first failing witness
	Expected string
}

type Finding struct {
	Property string `json:"property"`
	Key      string `json:"key"`
	Status   string `json:"status"` // known | fixed
	Commit   string `json:"commit,omitempty"`
	What     string `json:"what"`
	Witness  string `json:"witness,omitempty"`
}

type Ctx struct {
	ID    string
	Level string
	Tier  string
	Seed  int64
	Root  string

	mu          sync.Mutex
	obls        map[string]*Obl
	evals       int64
	distinct    map[uint64]struct{}
	samples     []any
	extra       map[string]any
	assumptions []string
	rule        string
	exhaustive  bool
	caps        []string
	start       time.Time
	replayKey   string
	listFail    bool
	deadline    time.Time
}

func (c *Ctx) Quick() bool    { return c.Tier != "thorough" }
func (c *Ctx) Thorough() bool { return c.Tier == "thorough" }

// Pick returns q in the quick tier and t in the thorough tier.
func (c *Ctx) Pick(q, t int) int {
	if c.Thorough() {
		return t
	}
	return q
}

// DeadlineExceeded reports whether the internal global deadline passed; checks
// then stop early with exhaustive=false (never a violation).
func (c *Ctx) DeadlineExceeded() bool {
	if time.Now().After(c.deadline) {
		c.Cap("internal deadline reached")
		return true
	}
	return false
}

// Check records one evaluation of obligation key.
func (c *Ctx) Check(key string, ok bool, witness func() string) bool {
	c.mu.Lock()
	o := c.obls[key]
	if o == nil {
		o = &Obl{Key: key}
		c.obls[key] = o
	}
	o.Evals++
	if !ok {
		o.Fails++
		if o.Witness == "" {
			c.mu.Unlock()
			w := "(no witness)"
			if witness != nil {
				w = witness()
			}
			if len(w) > 4000 {
				w = w[:4000] + "…(truncated)"
			}
			c.mu.Lock()
			if o.Witness == "" {
				o.Witness = w
			}
		}
	}
	c.mu.Unlock()
	return ok
}

// Pass registers n passing evaluations of key in one call (hot loops).
func (c *Ctx) Pass(key string, n int64) {
	c.mu.Lock()
	o := c.obls[key]
	if o == nil {
		o = &Obl{Key: key}
		c.obls[key] = o
	}
	o.Evals += n
	c.mu.Unlock()
}

func (c *Ctx) Fail(key, witness string) { c.Check(key, false, func() string { return witness }) }

// Evals adds n to the evaluation counter.
func (c *Ctx) Evals(n int64) { c.mu.Lock(); c.evals += n; c.mu.Unlock() }

// Distinct records a distinct non-trivial case (hashed).
func (c *Ctx) Distinct(parts ...[]byte) {
	h := fnv.New64a()
	for _, p := range parts {
		h.Write(p)
		h.Write([]byte{0xfe})
	}
	v := h.Sum64()
	c.mu.Lock()
	c.distinct[v] = struct{}{}
	c.mu.Unlock()
}
func (c *Ctx) DistinctS(s string) { c.Distinct([]byte(s)) }

// Case = Evals(1)+Distinct.
func (c *Ctx) Case(parts ...[]byte) {
	c.Distinct(parts...)
	c.Evals(1)
}

// Sample keeps up to 12 samples overall, at most 3 per tag.
func (c *Ctx) Sample(tag string, v any) {
	c.mu.Lock()
	defer c.mu.Unlock()
	n := 0
	for _, s := range c.samples {
		if m, ok := s.(map[string]any); ok && m["tag"] == tag {
			n++
		}
	}
	if n >= 2 || len(c.samples) >= 40 {
		return
	}
	c.samples = append(c.samples, map[string]any{"tag": tag, "case": v})
}

func (c *Ctx) Set(k string, v any) { c.mu.Lock(); c.extra[k] = v; c.mu.Unlock() }
func (c *Ctx) Add(k string, n int64) {
	c.mu.Lock()
	cur, _ := c.extra[k].(int64)
	c.extra[k] = cur + n
	c.mu.Unlock()
}
func (c *Ctx) Get(k string) int64 {
	c.mu.Lock()
	defer c.mu.Unlock()
	cur, _ := c.extra[k].(int64)
	return cur
}
func (c *Ctx) Assume(s string) { c.mu.Lock(); c.assumptions = append(c.assumptions, s); c.mu.Unlock() }
func (c *Ctx) Rule(s string) {
	c.mu.Lock()
	if c.rule != "" {
		c.rule += " | "
	}
	c.rule += s
	c.mu.Unlock()
}
func (c *Ctx) Cap(s string) {
	c.mu.Lock()
	for _, x := range c.caps {
		if x == s {
			c.mu.Unlock()
			return
		}
	}
	c.caps = append(c.caps, s)
	c.exhaustive = false
	c.mu.Unlock()
}

// Fatalf is a harness error (exit 2): never reported as a violation.
func (c *Ctx) Fatalf(format string, a ...any) {
	msg := fmt.Sprintf("HARNESS-ERROR property=%s %s\n", c.ID, fmt.Sprintf(format, a...))
	if IsWorker() {
		os.Stderr.WriteString(msg) // a worker's stdout may be redirected; the parent prints what it captured
	} else {
		fmt.Print(msg)
	}
	os.Exit(2)
}

// Par runs fn(i) for i in [0,n) on all cores.
func Par(n int, fn func(i int)) {
	w := runtime.NumCPU()
	if w > n {
		w = n
	}
	if w < 1 {
		w = 1
	}
	var wg sync.WaitGroup
	ch := make(chan int, 64)
	for k := 0; k < w; k++ {
		wg.Add(1)
		go func() {
			defer wg.Done()
			defer func() {
				if r := recover(); r != nil {
					notePanic(r)
					for range ch { // drain so that the producer does not block
					}
				}
			}()
			for i := range ch {
				fn(i)
			}
		}()
	}
	for i := 0; i < n; i++ {
		ch <- i
	}
	close(ch)
	wg.Wait()
}

var (
	panicMu   sync.Mutex
	panicNote string
)

// notePanic remembers the first panic that escaped a check body (or one of its Par workers).
func notePanic(r any) {
	panicMu.Lock()
	defer panicMu.Unlock()
	if panicNote == "" {
		st := string(debug.Stack())
		var keep []string
		for _, l := range strings.Split(st, "\n") {
			if strings.Contains(l, "Manticore") || strings.Contains(l, "/verif/") {
				keep = append(keep, strings.TrimSpace(l))
			}
			if len(keep) >= 16 {
				break
			}
		}
		panicNote = fmt.Sprintf("%v @ %s", r, strings.Join(keep, " | "))
	}
}

// Try runs f and reports a panic with the innermost Manticore frame:
// where = "<func>:<source line text>" (stable across line shifts).
func Try(f func()) (panicked bool, msg string, where string) {
	defer func() {
		if r := recover(); r != nil {
			panicked = true
			msg = fmt.Sprint(r)
			where = manticoreFrame()
		}
	}()
	f()
	return
}

var srcCache sync.Map

func srcLine(file string, line int) string {
	v, ok := srcCache.Load(file)
	if !ok {
		b, err := os.ReadFile(file)
		var lines []string
		if err == nil {
			lines = strings.Split(string(b), "\n")
		}
		srcCache.Store(file, lines)
		v = lines
	}
	lines := v.([]string)
	if line-1 < len(lines) && line >= 1 {
		return strings.TrimSpace(lines[line-1])
	}
	return "?"
}

func manticoreFrame() string {
	pc := make([]uintptr, 64)
	n := runtime.Callers(3, pc)
	fr := runtime.CallersFrames(pc[:n])
	for {
		f, more := fr.Next()
		if strings.Contains(f.Function, "TheManticoreProject/Manticore") && !strings.Contains(f.Function, "zz_verif") {
			fn := f.Function[strings.Index(f.Function, "Manticore/")+len("Manticore/"):]
			return fn + ":" + strconv.Quote(srcLine(f.File, f.Line))
		}
		if !more {
			break
		}
	}
	return "outside-manticore"
}

func Hex(b []byte) string { return hex.EncodeToString(b) }

// HexS abbreviates long byte strings for witnesses.
func HexS(b []byte) string {
	if len(b) <= 96 {
		return hex.EncodeToString(b)
	}
	return fmt.Sprintf("%s…(%d bytes)…%s", hex.EncodeToString(b[:48]), len(b), hex.EncodeToString(b[len(b)-16:]))
}

func loadFindings(root string) ([]Finding, error) {
	// known findings live in /verif/findings/<ID>.json (one committed file per property,
	// never written at run time)
	files, _ := filepath.Glob(filepath.Join(root, "findings", "*.json"))
	sort.Strings(files)
	var all []Finding
	for _, fn := range files {
		b, err := os.ReadFile(fn)
		if err != nil {
			return nil, err
		}
		var f []Finding
		if err := json.Unmarshal(b, &f); err != nil {
			return nil, fmt.Errorf("%s: %v", fn, err)
		}
		all = append(all, f...)
	}
	return all, nil
}

// shard is what a worker subprocess hands back to its parent.
type shard struct {
	Obls     []*Obl
	Evals    int64
	Distinct []uint64
	Samples  []any
	Extra    map[string]any
	Caps     []string
}

func (c *Ctx) writeShard(path string) {
	sh := shard{Evals: c.evals, Samples: c.samples, Extra: c.extra, Caps: c.caps}
	for _, o := range c.obls {
		sh.Obls = append(sh.Obls, o)
	}
	for h := range c.distinct {
		sh.Distinct = append(sh.Distinct, h)
	}
	b, err := json.Marshal(sh)
	if err != nil {
		c.Fatalf("shard: %v", err)
	}
	if err := os.WriteFile(path, b, 0o644); err != nil {
		c.Fatalf("shard: %v", err)
	}
}

// MergeShard folds a worker's result file into this context. Numeric extras are summed,
// other extras are kept under their key.
func (c *Ctx) MergeShard(path string) error {
	b, err := os.ReadFile(path)
	if err != nil {
		return err
	}
	var sh shard
	if err := json.Unmarshal(b, &sh); err != nil {
		return err
	}
	c.mu.Lock()
	defer c.mu.Unlock()
	for _, o := range sh.Obls {
		cur := c.obls[o.Key]
		if cur == nil {
			c.obls[o.Key] = o
			continue
		}
		cur.Evals += o.Evals
		cur.Fails += o.Fails
		if cur.Witness == "" {
			cur.Witness = o.Witness
		}
	}
	c.evals += sh.Evals
	for _, h := range sh.Distinct {
		c.distinct[h] = struct{}{}
	}
	for _, smp := range sh.Samples {
		if len(c.samples) < 40 {
			c.samples = append(c.samples, smp)
		}
	}
	for k, v := range sh.Extra {
		if f, ok := v.(float64); ok {
			if cur, ok := c.extra[k].(int64); ok {
				c.extra[k] = cur + int64(f)
			} else if c.extra[k] == nil {
				c.extra[k] = int64(f)
			}
			continue
		}
		c.extra[k] = v
	}
	for _, cp := range sh.Caps {
		dup := false
		for _, x := range c.caps {
			if x == cp {
				dup = true
			}
		}
		if !dup {
			c.caps = append(c.caps, cp)
			c.exhaustive = false
		}
	}
	return nil
}

// RunShards re-executes this binary n times in parallel as workers (env VERIF_SHARD=i/n,
// VERIF_SHARD_OUT=file) and merges their results. The body must call ShardOf() to select its share.
func (c *Ctx) RunShards(n int) {
	dir := os.Getenv("VERIF_WORK")
	if dir == "" {
		dir = os.TempDir()
	}
	type res struct {
		i    int
		out  []byte
		err  error
		path string
	}
	ch := make(chan res, n)
	for i := 0; i < n; i++ {
		go func(i int) {
			path := filepath.Join(dir, fmt.Sprintf("shard-%s-%d-%d.json", c.ID, os.Getpid(), i))
			cmd := exec.Command(os.Args[0], "--tier", c.Tier)
			left := time.Until(c.deadline).Seconds()
			cmd.Env = append(os.Environ(), fmt.Sprintf("VERIF_SHARD=%d/%d", i, n), "VERIF_SHARD_OUT="+path, fmt.Sprintf("VERIF_BUDGET_S=%d", int(left)))
			out, err := cmd.CombinedOutput()
			ch <- res{i, out, err, path}
		}(i)
	}
	for k := 0; k < n; k++ {
		r := <-ch
		if r.err != nil {
			fmt.Print(string(r.out))
			c.Fatalf("worker %d/%d failed: %v", r.i, n, r.err)
		}
		if err := c.MergeShard(r.path); err != nil {
			c.Fatalf("worker %d/%d: %v", r.i, n, err)
		}
		os.Remove(r.path)
	}
}

// ShardOf reports (index, count) when running as a worker, (0,1) otherwise.
func ShardOf() (int, int) {
	var i, n int
	if _, err := fmt.Sscanf(os.Getenv("VERIF_SHARD"), "%d/%d", &i, &n); err != nil || n <= 0 {
		return 0, 1
	}
	return i, n
}

// IsWorker reports whether this process is a shard worker.
func IsWorker() bool { return os.Getenv("VERIF_SHARD_OUT") != "" }

// Main runs a check body and implements the command-line and output protocol.
func Main(id, level string, body func(c *Ctx)) {
	tier := flag.String("tier", os.Getenv("VERIF_TIER"), "quick|thorough")
	replay := flag.String("replay", "", "replay file: re-run and report only that obligation")
	list := flag.Bool("list-failures", false, "print failing obligations as known_findings.json entries and exit 0")
	flag.Parse()
	if *tier == "" {
		*tier = "quick"
	}
	if *tier != "quick" && *tier != "thorough" {
		fmt.Printf("HARNESS-ERROR bad tier %q\n", *tier)
		os.Exit(2)
	}
	seed, _ := strconv.ParseInt(os.Getenv("VERIF_SEED"), 10, 64)
	root := os.Getenv("VERIF_ROOT")
	if root == "" {
		root, _ = os.Getwd()
	}
	c := &Ctx{ID: id, Level: level, Tier: *tier, Seed: seed, Root: root,
		obls: map[string]*Obl{}, distinct: map[uint64]struct{}{}, extra: map[string]any{},
		exhaustive: true, start: time.Now(), listFail: *list}
	budget := 8 * time.Minute
	if c.Thorough() {
		budget = 100 * time.Minute
	}
	if s := os.Getenv("VERIF_BUDGET_S"); s != "" {
		if n, err := strconv.Atoi(s); err == nil {
			budget = time.Duration(n) * time.Second
		}
	}
	c.deadline = c.start.Add(budget)
	if *replay != "" {
		b, err := os.ReadFile(*replay)
		if err != nil {
			c.Fatalf("cannot read replay file: %v", err)
		}
		var r struct{ Key string }
		if err := json.Unmarshal(b, &r); err != nil || r.Key == "" {
			c.Fatalf("bad replay file")
		}
		c.replayKey = r.Key
	}
	findings, err := loadFindings(root)
	if err != nil {
		c.Fatalf("findings: %v", err)
	}
	known := map[string]Finding{}
	for _, f := range findings {
		if f.Property == id && f.Status == "known" {
			known[f.Key] = f
		}
	}

	func() {
		defer func() {
			if r := recover(); r != nil {
				notePanic(r)
			}
		}()
		body(c)
	}()
	panicMu.Lock()
	pn := panicNote
	panicMu.Unlock()
	if pn != "" {
		// The library (or the harness, driven by what the library returned) panicked outside any
		// vf.Try. On the unchanged tree this never happens; with an edited tree it is a symptom of
		// the edit, so it is reported as a violation of its own obligation, not as a harness error.
		c.Check(id+"/check-ran-to-completion-without-panic", false, func() string { return "the check was aborted by a panic: " + pn })
		c.Cap("check aborted by a panic; coverage is partial")
	} else {
		c.Pass(id+"/check-ran-to-completion-without-panic", 1)
	}

	if out := os.Getenv("VERIF_SHARD_OUT"); out != "" {
		c.writeShard(out)
		os.Exit(0)
	}

	keys := make([]string, 0, len(c.obls))
	for k := range c.obls {
		keys = append(keys, k)
	}
	sort.Strings(keys)
	var failedKnown, failedNew, passed int
	var violations []string
	var newFail []*Obl
	var maskedEvals int64
	for _, k := range keys {
		o := c.obls[k]
		if c.replayKey != "" && k != c.replayKey {
			continue
		}
		if o.Fails == 0 {
			passed++
			continue
		}
		if f, ok := known[k]; ok && !c.listFail {
			failedKnown++
			maskedEvals += o.Fails
			fmt.Printf("KNOWN-FINDING: property=%s %s — %s\n", id, k, f.What)
			continue
		}
		failedNew++
		newFail = append(newFail, o)
	}
	if c.listFail {
		var out []Finding
		for _, o := range newFail {
			out = append(out, Finding{Property: id, Key: o.Key, Status: "known", What: "TODO", Witness: o.Witness})
		}
		b, _ := json.MarshalIndent(out, "", " ")
		fmt.Println(string(b))
		fmt.Fprintf(os.Stderr, "%d failing obligations of %d\n", len(out), len(keys))
		os.Exit(0)
	}
	os.MkdirAll(filepath.Join(root, "replays"), 0o755)
	for i, o := range newFail {
		h := sha256.Sum256([]byte(o.Key))
		p := filepath.Join(root, "replays", fmt.Sprintf("%s-%s.json", id, hex.EncodeToString(h[:6])))
		rb, _ := json.MarshalIndent(map[string]any{"property": id, "key": o.Key, "tier": c.Tier, "failing_evaluations": o.Fails,
			"evaluations": o.Evals, "witness": o.Witness,
			"how_to_replay": fmt.Sprintf("cd /verif && ./vcheck %s %s --replay %s", id, c.Tier, p)}, "", " ")
		os.WriteFile(p, rb, 0o644)
		if i < 60 {
			fmt.Printf("VIOLATION property=%s replay=%s key=%s witness=%s\n", id, p, o.Key, oneLine(o.Witness, 300))
		}
		violations = append(violations, o.Key)
	}
	if len(newFail) > 60 {
		fmt.Printf("(%d further violations not printed; see evidence)\n", len(newFail)-60)
	}
	for k := range known {
		if o := c.obls[k]; c.replayKey == "" && (o == nil || o.Fails == 0) {
			fmt.Printf("NOTE: known finding no longer observed (stale entry?): %s\n", k)
		}
	}

	cov := map[string]any{}
	for k, v := range c.extra {
		cov[k] = v
	}
	if c.evals == 0 {
		var t int64
		for _, o := range c.obls {
			t += o.Evals
		}
		c.evals = t
	}
	cov["evaluations"] = c.evals
	cov["distinct_nontrivial"] = len(c.distinct)
	cov["rule"] = c.rule
	if len(c.samples) == 0 {
		for i, k := range keys {
			if i >= 5 {
				break
			}
			c.samples = append(c.samples, map[string]any{"tag": "obligation", "case": k})
		}
	}
	cov["samples"] = c.samples
	cov["exhaustive"] = c.exhaustive && len(c.caps) == 0
	cov["caps_hit"] = c.caps
	cov["obligations_total"] = len(keys)
	cov["obligations_passed"] = passed
	cov["obligations_failed_known"] = failedKnown
	cov["obligations_failed_new"] = failedNew
	cov["failing_evaluations_masked_by_known"] = maskedEvals
	if len(violations) > 200 {
		violations = violations[:200]
	}
	cov["violating_obligations"] = violations
	ev := map[string]any{
		"property_id": id, "tier": c.Tier, "seed": c.Seed, "level": level,
		"coverage": cov, "assumptions": c.assumptions,
		"wall_s": time.Since(c.start).Seconds(), "violations": failedNew,
	}
	if c.replayKey == "" {
		evdir := filepath.Join(root, "evidence")
		if r := os.Getenv("VERIF_REPO"); (r != "" && r != "/repo") || os.Getenv("VERIF_NO_EVIDENCE") != "" {
			// developer runs against a scratch worktree never overwrite the real evidence
			evdir = filepath.Join(root, ".work", "evidence-scratch")
		}
		os.MkdirAll(evdir, 0o755)
		eb, _ := json.MarshalIndent(ev, "", " ")
		if err := os.WriteFile(filepath.Join(evdir, id+".json"), append(eb, '\n'), 0o644); err != nil {
			c.Fatalf("cannot write evidence: %v", err)
		}
	}
	fmt.Printf("SUMMARY property=%s tier=%s obligations=%d passed=%d known=%d new=%d evaluations=%d distinct=%d exhaustive=%v wall=%.1fs\n",
		id, c.Tier, len(keys), passed, failedKnown, failedNew, c.evals, len(c.distinct), cov["exhaustive"], time.Since(c.start).Seconds())
	if failedNew > 0 {
		os.Exit(1)
	}
	os.Exit(0)
}

func oneLine(s string, n int) string {
	s = strings.ReplaceAll(s, "\n", " ⏎ ")
	if len(s) > n {
		s = s[:n] + "…"
	}
	return s
}
