// Package vatomic stands in for sync/atomic in instrumented packages: every operation is a scheduling
// point (another thread may run before it) and is then performed as a plain access — the cooperative
// scheduler runs one thread at a time, and sequential consistency is what sync/atomic promises.
package vatomic

import (
	"unsafe"

	"github.com/TheManticoreProject/Manticore/zz_verif/vrt"
)

func pt(what string) { vrt.Op(nil, 0, "atomic."+what); vrt.Progress() }

type integer interface {
	~int32 | ~int64 | ~uint32 | ~uint64 | ~uintptr
}

func load[T any](p *T) T         { pt("Load"); return *p }
func store[T any](p *T, v T)     { pt("Store"); *p = v }
func swap[T any](p *T, v T) T    { pt("Swap"); o := *p; *p = v; return o }
func add[T integer](p *T, d T) T { pt("Add"); *p += d; return *p }
func cas[T comparable](p *T, o, n T) bool {
	pt("CompareAndSwap")
	if *p == o {
		*p = n
		return true
	}
	return false
}

func LoadInt32(p *int32) int32                                          { return load(p) }
func LoadInt64(p *int64) int64                                          { return load(p) }
func LoadUint32(p *uint32) uint32                                       { return load(p) }
func LoadUint64(p *uint64) uint64                                       { return load(p) }
func LoadUintptr(p *uintptr) uintptr                                    { return load(p) }
func LoadPointer(p *unsafe.Pointer) unsafe.Pointer                      { return load(p) }
func StoreInt32(p *int32, v int32)                                      { store(p, v) }
func StoreInt64(p *int64, v int64)                                      { store(p, v) }
func StoreUint32(p *uint32, v uint32)                                   { store(p, v) }
func StoreUint64(p *uint64, v uint64)                                   { store(p, v) }
func StoreUintptr(p *uintptr, v uintptr)                                { store(p, v) }
func StorePointer(p *unsafe.Pointer, v unsafe.Pointer)                  { store(p, v) }
func SwapInt32(p *int32, v int32) int32                                 { return swap(p, v) }
func SwapInt64(p *int64, v int64) int64                                 { return swap(p, v) }
func SwapUint32(p *uint32, v uint32) uint32                             { return swap(p, v) }
func SwapUint64(p *uint64, v uint64) uint64                             { return swap(p, v) }
func AddInt32(p *int32, d int32) int32                                  { return add(p, d) }
func AddInt64(p *int64, d int64) int64                                  { return add(p, d) }
func AddUint32(p *uint32, d uint32) uint32                              { return add(p, d) }
func AddUint64(p *uint64, d uint64) uint64                              { return add(p, d) }
func CompareAndSwapInt32(p *int32, o, n int32) bool                     { return cas(p, o, n) }
func CompareAndSwapInt64(p *int64, o, n int64) bool                     { return cas(p, o, n) }
func CompareAndSwapUint32(p *uint32, o, n uint32) bool                  { return cas(p, o, n) }
func CompareAndSwapUint64(p *uint64, o, n uint64) bool                  { return cas(p, o, n) }
func CompareAndSwapPointer(p *unsafe.Pointer, o, n unsafe.Pointer) bool { return cas(p, o, n) }

type Bool struct{ v bool }

func (x *Bool) Load() bool                    { return load(&x.v) }
func (x *Bool) Store(v bool)                  { store(&x.v, v) }
func (x *Bool) Swap(v bool) bool              { return swap(&x.v, v) }
func (x *Bool) CompareAndSwap(o, n bool) bool { return cas(&x.v, o, n) }

type Int32 struct{ v int32 }

func (x *Int32) Load() int32                    { return load(&x.v) }
func (x *Int32) Store(v int32)                  { store(&x.v, v) }
func (x *Int32) Swap(v int32) int32             { return swap(&x.v, v) }
func (x *Int32) Add(d int32) int32              { return add(&x.v, d) }
func (x *Int32) CompareAndSwap(o, n int32) bool { return cas(&x.v, o, n) }

type Int64 struct{ v int64 }

func (x *Int64) Load() int64                    { return load(&x.v) }
func (x *Int64) Store(v int64)                  { store(&x.v, v) }
func (x *Int64) Swap(v int64) int64             { return swap(&x.v, v) }
func (x *Int64) Add(d int64) int64              { return add(&x.v, d) }
func (x *Int64) CompareAndSwap(o, n int64) bool { return cas(&x.v, o, n) }

type Uint32 struct{ v uint32 }

func (x *Uint32) Load() uint32                    { return load(&x.v) }
func (x *Uint32) Store(v uint32)                  { store(&x.v, v) }
func (x *Uint32) Swap(v uint32) uint32            { return swap(&x.v, v) }
func (x *Uint32) Add(d uint32) uint32             { return add(&x.v, d) }
func (x *Uint32) CompareAndSwap(o, n uint32) bool { return cas(&x.v, o, n) }

type Uint64 struct{ v uint64 }

func (x *Uint64) Load() uint64                    { return load(&x.v) }
func (x *Uint64) Store(v uint64)                  { store(&x.v, v) }
func (x *Uint64) Swap(v uint64) uint64            { return swap(&x.v, v) }
func (x *Uint64) Add(d uint64) uint64             { return add(&x.v, d) }
func (x *Uint64) CompareAndSwap(o, n uint64) bool { return cas(&x.v, o, n) }

type Pointer[T any] struct{ p *T }

func (x *Pointer[T]) Load() *T                    { return load(&x.p) }
func (x *Pointer[T]) Store(v *T)                  { store(&x.p, v) }
func (x *Pointer[T]) Swap(v *T) *T                { return swap(&x.p, v) }
func (x *Pointer[T]) CompareAndSwap(o, n *T) bool { return cas(&x.p, o, n) }

type Value struct{ v any }

func (x *Value) Load() any      { return load(&x.v) }
func (x *Value) Store(v any)    { store(&x.v, v) }
func (x *Value) Swap(v any) any { return swap(&x.v, v) }
func (x *Value) CompareAndSwap(o, n any) bool {
	pt("CompareAndSwap")
	if x.v == o {
		x.v = n
		return true
	}
	return false
}
