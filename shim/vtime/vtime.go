// Package vtime replaces "time" in instrumented library files: a virtual clock owned by vrt.
package vtime

import (
	"time"

	"github.com/TheManticoreProject/Manticore/zz_verif/vrt"
)

type (
	Time     = time.Time
	Duration = time.Duration
	Month    = time.Month
	Weekday  = time.Weekday
	Location = time.Location
)

const (
	Nanosecond  = time.Nanosecond
	Microsecond = time.Microsecond
	Millisecond = time.Millisecond
	Second      = time.Second
	Minute      = time.Minute
	Hour        = time.Hour

	RFC3339     = time.RFC3339
	RFC3339Nano = time.RFC3339Nano
	RFC1123     = time.RFC1123
	Kitchen     = time.Kitchen
	DateTime    = time.DateTime
	DateOnly    = time.DateOnly
	TimeOnly    = time.TimeOnly
)

var (
	UTC   = time.UTC
	Local = time.Local
)

// Epoch is the virtual origin.
var Epoch = time.Date(2026, 1, 1, 0, 0, 0, 0, time.UTC)

func Now() Time                 { return Epoch.Add(time.Duration(vrt.Now())) }
func Since(t Time) Duration     { return Now().Sub(t) }
func Until(t Time) Duration     { return t.Sub(Now()) }
func Unix(sec, nsec int64) Time { return time.Unix(sec, nsec) }
func UnixMilli(ms int64) Time   { return time.UnixMilli(ms) }
func Date(y int, m Month, d, h, mi, s, ns int, l *Location) Time {
	return time.Date(y, m, d, h, mi, s, ns, l)
}
func Parse(layout, value string) (Time, error) { return time.Parse(layout, value) }
func ParseDuration(s string) (Duration, error) { return time.ParseDuration(s) }

// ToVirtual converts an absolute deadline into virtual ns (0 = no deadline).
func ToVirtual(t Time) int64 {
	if t.IsZero() {
		return 0
	}
	v := int64(t.Sub(Epoch))
	if v <= 0 {
		v = 1 // already expired
	}
	return v
}

func Sleep(d Duration) {
	if d <= 0 {
		vrt.Point()
		return
	}
	vrt.Sleep(int64(d))
}

// After returns a real channel that the virtual clock fills at quiescence.
func After(d Duration) <-chan Time {
	ch := make(chan Time, 1)
	vrt.AddTimer(int64(d), func() { ch <- Now() })
	return ch
}

// Ticker delivers the virtual clock on C every d (one tick is buffered, further ones are dropped while it is
// unread, as the real one does).
type Ticker struct {
	C     <-chan Time
	c     chan Time
	d     int64
	epoch *int
}

func NewTicker(d Duration) *Ticker {
	if d <= 0 {
		panic("non-positive interval for NewTicker")
	}
	ch := make(chan Time, 1)
	e := 0
	t := &Ticker{C: ch, c: ch, d: int64(d), epoch: &e}
	t.arm(e)
	return t
}

func (t *Ticker) arm(e int) {
	vrt.AddTimer(t.d, func() {
		if *t.epoch != e {
			return
		}
		select {
		case t.c <- Now():
		default:
		}
		t.arm(e)
	})
}
func (t *Ticker) Stop() { *t.epoch++ }
func (t *Ticker) Reset(d Duration) {
	*t.epoch++
	t.d = int64(d)
	t.arm(*t.epoch)
}
func Tick(d Duration) <-chan Time { return NewTicker(d).C }

type Timer struct {
	C     <-chan Time
	c     chan Time
	alive *bool
}

func NewTimer(d Duration) *Timer {
	ch := make(chan Time, 1)
	alive := true
	vrt.AddTimer(int64(d), func() {
		if alive {
			alive = false
			ch <- Now()
		}
	})
	return &Timer{C: ch, c: ch, alive: &alive}
}
func (t *Timer) Stop() bool {
	was := *t.alive
	*t.alive = false
	return was
}

// Reset re-arms the timer (channel timers only deliver once per arming, as the real ones do).
func (t *Timer) Reset(d Duration) bool {
	was := *t.alive
	*t.alive = false
	alive := true
	t.alive = &alive
	ch := t.c
	vrt.AddTimer(int64(d), func() {
		if alive {
			alive = false
			if ch != nil {
				select {
				case ch <- Now():
				default:
				}
			}
		}
	})
	return was
}
func AfterFunc(d Duration, f func()) *Timer {
	alive := true
	vrt.AddTimer(int64(d), func() {
		if alive {
			alive = false
			vrt.Go(f)
		}
	})
	return &Timer{alive: &alive}
}
