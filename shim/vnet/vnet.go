// Package vnet replaces "net" in instrumented library files: an in-memory network whose
// blocking operations are scheduling points of vrt. Only documented API behaviour is
// modelled: blocking reads, error after close, deadline => timeout error, at-most-once
// in-order datagrams per sender, in-order byte streams.
package vnet

import (
	"context"
	"fmt"
	"io"
	"net"
	"net/netip"
	"os"
	"strings"
	"time"

	"github.com/TheManticoreProject/Manticore/zz_verif/vrt"
	"github.com/TheManticoreProject/Manticore/zz_verif/vtime"
)

type (
	IP           = net.IP
	IPMask       = net.IPMask
	IPNet        = net.IPNet
	Addr         = net.Addr
	UDPAddr      = net.UDPAddr
	TCPAddr      = net.TCPAddr
	IPAddr       = net.IPAddr
	Error        = net.Error
	OpError      = net.OpError
	AddrError    = net.AddrError
	Conn         = net.Conn
	PacketConn   = net.PacketConn
	Listener     = net.Listener
	Interface    = net.Interface
	Flags        = net.Flags
	HardwareAddr = net.HardwareAddr
)

var (
	ErrClosed       = net.ErrClosed
	IPv4zero        = net.IPv4zero
	IPv4bcast       = net.IPv4bcast
	IPv4allsys      = net.IPv4allsys
	IPv6zero        = net.IPv6zero
	IPv6unspecified = net.IPv6unspecified
	IPv6loopback    = net.IPv6loopback
)

const (
	IPv4len = net.IPv4len
	IPv6len = net.IPv6len
)

func ParseIP(s string) IP                             { return net.ParseIP(s) }
func IPv4(a, b, c, d byte) IP                         { return net.IPv4(a, b, c, d) }
func IPv4Mask(a, b, c, d byte) IPMask                 { return net.IPv4Mask(a, b, c, d) }
func CIDRMask(ones, bits int) IPMask                  { return net.CIDRMask(ones, bits) }
func ParseCIDR(s string) (IP, *IPNet, error)          { return net.ParseCIDR(s) }
func JoinHostPort(h, p string) string                 { return net.JoinHostPort(h, p) }
func SplitHostPort(hp string) (string, string, error) { return net.SplitHostPort(hp) }
func ResolveUDPAddr(network, address string) (*UDPAddr, error) {
	return net.ResolveUDPAddr(network, address) // literal addresses only: no lookups happen
}
func ResolveTCPAddr(network, address string) (*TCPAddr, error) {
	return net.ResolveTCPAddr(network, address)
}
func Interfaces() ([]Interface, error) { return nil, nil }
func InterfaceAddrs() ([]Addr, error) {
	return []Addr{&IPNet{IP: IPv4(127, 0, 0, 1), Mask: CIDRMask(8, 32)}}, nil
}
func InterfaceByName(string) (*Interface, error) { return nil, fmt.Errorf("vnet: no interfaces") }

type world struct {
	udp       []*UDPConn
	listeners []*TCPListener
	nextPort  int
	// Log of datagrams sent, for harness oracles.
	Sent int
}

var w = &world{nextPort: 40000}

func init() { vrt.OnReset(func() { w = &world{nextPort: 40000} }) }

func timeoutErr(op, netw string) error {
	return &net.OpError{Op: op, Net: netw, Err: os.ErrDeadlineExceeded}
}
func closedErr(op, netw string) error { return &net.OpError{Op: op, Net: netw, Err: net.ErrClosed} }

// ---------------------------------------------------------------- UDP

type dgram struct {
	from *net.UDPAddr
	data []byte
}

type UDPConn struct {
	// FaultyReads lets the explorer fail reads of THIS socket (set by the harness on the socket under test).
	FaultyReads bool
	laddr       *net.UDPAddr
	raddr       *net.UDPAddr // connected (DialUDP)
	group       net.IP
	q           []dgram
	closed      bool
	rdl         int64
	wdl         int64
}

func (w *world) port(p int) int {
	if p != 0 {
		return p
	}
	w.nextPort++
	return w.nextPort
}

func ListenUDP(network string, laddr *UDPAddr) (*UDPConn, error) {
	if laddr == nil {
		laddr = &net.UDPAddr{}
	}
	port := w.port(laddr.Port)
	for _, c := range w.udp {
		if !c.closed && c.group == nil && c.laddr.Port == port && (c.laddr.IP.IsUnspecified() || laddr.IP.IsUnspecified() || len(laddr.IP) == 0 || len(c.laddr.IP) == 0 || c.laddr.IP.Equal(laddr.IP)) {
			return nil, &net.OpError{Op: "listen", Net: network, Addr: laddr, Err: fmt.Errorf("bind: address already in use")}
		}
	}
	c := &UDPConn{laddr: &net.UDPAddr{IP: laddr.IP, Port: port, Zone: laddr.Zone}}
	w.udp = append(w.udp, c)
	vrt.Progress()
	return c, nil
}

func ListenMulticastUDP(network string, ifi *Interface, gaddr *UDPAddr) (*UDPConn, error) {
	if gaddr == nil || gaddr.IP == nil {
		return nil, &net.OpError{Op: "listen", Net: network, Err: fmt.Errorf("missing address")}
	}
	c := &UDPConn{laddr: &net.UDPAddr{IP: gaddr.IP, Port: gaddr.Port}, group: gaddr.IP}
	w.udp = append(w.udp, c)
	vrt.Progress()
	return c, nil
}

func DialUDP(network string, laddr, raddr *UDPAddr) (*UDPConn, error) {
	if raddr == nil {
		return nil, &net.OpError{Op: "dial", Net: network, Err: fmt.Errorf("missing address")}
	}
	l := &net.UDPAddr{IP: net.IPv4(127, 0, 0, 1)}
	if laddr != nil {
		l = &net.UDPAddr{IP: laddr.IP, Port: laddr.Port}
	}
	l.Port = w.port(l.Port)
	c := &UDPConn{laddr: l, raddr: raddr}
	w.udp = append(w.udp, c)
	return c, nil
}

func (c *UDPConn) srcAddr() *net.UDPAddr {
	ip := c.laddr.IP
	if len(ip) == 0 || ip.IsUnspecified() || ip.IsMulticast() {
		ip = net.IPv4(127, 0, 0, 1)
	}
	return &net.UDPAddr{IP: ip, Port: c.laddr.Port}
}

func deliver(from *net.UDPAddr, to *net.UDPAddr, b []byte) {
	w.Sent++
	for _, c := range w.udp {
		if c.closed || c.laddr.Port != to.Port {
			continue
		}
		ok := false
		if to.IP.IsMulticast() {
			ok = c.group != nil && c.group.Equal(to.IP)
		} else {
			ok = c.group == nil && (len(c.laddr.IP) == 0 || c.laddr.IP.IsUnspecified() || c.laddr.IP.Equal(to.IP))
			if ok && c.raddr != nil && !(c.raddr.Port == from.Port && c.raddr.IP.Equal(from.IP)) {
				ok = false // connected socket only accepts its peer
			}
		}
		if ok {
			c.q = append(c.q, dgram{from: from, data: append([]byte(nil), b...)})
		}
	}
	vrt.Progress()
}

func (c *UDPConn) ReadFromUDP(b []byte) (int, *UDPAddr, error) {
	vrt.Op(func() bool { return len(c.q) > 0 || c.closed }, c.rdl, "UDPConn.Read")
	if c.closed {
		return 0, nil, closedErr("read", "udp")
	}
	if c.rdl != 0 && vrt.Now() >= c.rdl && vrt.Active() {
		return 0, nil, timeoutErr("read", "udp")
	}
	if len(c.q) == 0 {
		if !vrt.Active() {
			return 0, nil, closedErr("read", "udp")
		}
		return 0, nil, timeoutErr("read", "udp")
	}
	if c.FaultyReads && vrt.Fault("udp-read") {
		// a transient receive error (e.g. ICMP port unreachable surfacing as ECONNREFUSED): the datagram is lost
		c.q = c.q[1:]
		return 0, nil, &net.OpError{Op: "read", Net: "udp", Err: fmt.Errorf("connection refused (injected)")}
	}
	d := c.q[0]
	c.q = c.q[1:]
	n := copy(b, d.data)
	vrt.Progress()
	return n, d.from, nil
}
func (c *UDPConn) ReadFrom(b []byte) (int, Addr, error) {
	n, a, err := c.ReadFromUDP(b)
	if a == nil {
		return n, nil, err
	}
	return n, a, err
}
func (c *UDPConn) Read(b []byte) (int, error) {
	n, _, err := c.ReadFromUDP(b)
	return n, err
}
func (c *UDPConn) ReadMsgUDP(b, oob []byte) (n, oobn, flags int, addr *UDPAddr, err error) {
	n, addr, err = c.ReadFromUDP(b)
	return
}
func (c *UDPConn) WriteToUDP(b []byte, addr *UDPAddr) (int, error) {
	vrt.Op(nil, 0, "UDPConn.Write")
	if c.closed {
		return 0, closedErr("write", "udp")
	}
	if addr == nil {
		return 0, &net.OpError{Op: "write", Net: "udp", Err: fmt.Errorf("missing address")}
	}
	deliver(c.srcAddr(), addr, b)
	return len(b), nil
}
func (c *UDPConn) WriteTo(b []byte, addr Addr) (int, error) {
	ua, ok := addr.(*net.UDPAddr)
	if !ok {
		return 0, &net.OpError{Op: "write", Net: "udp", Err: fmt.Errorf("invalid address type")}
	}
	return c.WriteToUDP(b, ua)
}
func (c *UDPConn) Write(b []byte) (int, error) {
	if c.raddr == nil {
		return 0, &net.OpError{Op: "write", Net: "udp", Err: fmt.Errorf("destination address required")}
	}
	return c.WriteToUDP(b, c.raddr)
}
func (c *UDPConn) Close() error {
	vrt.Op(nil, 0, "UDPConn.Close")
	if c.closed {
		return closedErr("close", "udp")
	}
	c.closed = true
	vrt.Progress()
	return nil
}
func (c *UDPConn) LocalAddr() Addr { return c.laddr }
func (c *UDPConn) RemoteAddr() Addr {
	if c.raddr == nil {
		return nil
	}
	return c.raddr
}
func (c *UDPConn) SetDeadline(t time.Time) error {
	if c.closed {
		return closedErr("set", "udp")
	}
	c.rdl, c.wdl = vtime.ToVirtual(t), vtime.ToVirtual(t)
	return nil
}
func (c *UDPConn) SetReadDeadline(t time.Time) error {
	if c.closed {
		return closedErr("set", "udp")
	}
	c.rdl = vtime.ToVirtual(t)
	return nil
}
func (c *UDPConn) SetWriteDeadline(t time.Time) error {
	if c.closed {
		return closedErr("set", "udp")
	}
	c.wdl = vtime.ToVirtual(t)
	return nil
}
func (c *UDPConn) SetReadBuffer(int) error  { return nil }
func (c *UDPConn) SetWriteBuffer(int) error { return nil }

// Pending reports the number of queued datagrams (harness oracle).
func (c *UDPConn) Pending() int   { return len(c.q) }
func (c *UDPConn) IsClosed() bool { return c.closed }

// ---------------------------------------------------------------- TCP

type TCPListener struct {
	addr   *net.TCPAddr
	q      []*StreamConn
	closed bool
}

func Listen(network, address string) (Listener, error) {
	a, err := net.ResolveTCPAddr(network, address)
	if err != nil {
		return nil, err
	}
	a.Port = w.port(a.Port)
	for _, l := range w.listeners {
		if !l.closed && l.addr.Port == a.Port {
			return nil, &net.OpError{Op: "listen", Net: network, Addr: a, Err: fmt.Errorf("bind: address already in use")}
		}
	}
	l := &TCPListener{addr: a}
	w.listeners = append(w.listeners, l)
	vrt.Progress()
	return l, nil
}

func (l *TCPListener) Accept() (Conn, error) {
	vrt.Op(func() bool { return len(l.q) > 0 || l.closed }, 0, "Listener.Accept")
	if l.closed {
		return nil, closedErr("accept", "tcp")
	}
	if len(l.q) == 0 {
		return nil, closedErr("accept", "tcp")
	}
	if vrt.Fault("tcp-accept") {
		// e.g. EMFILE / ECONNABORTED: a temporary accept error, the connection stays queued
		return nil, &tempErr{}
	}
	c := l.q[0]
	l.q = l.q[1:]
	vrt.Progress()
	return c, nil
}

type tempErr struct{}

func (*tempErr) Error() string   { return "accept: too many open files (injected)" }
func (*tempErr) Timeout() bool   { return false }
func (*tempErr) Temporary() bool { return true }
func (l *TCPListener) Close() error {
	vrt.Op(nil, 0, "Listener.Close")
	if l.closed {
		return closedErr("close", "tcp")
	}
	l.closed = true
	vrt.Progress()
	return nil
}
func (l *TCPListener) Addr() Addr { return l.addr }

type StreamConn struct {
	peer   *StreamConn
	in     []byte
	inEOF  bool
	closed bool
	rdl    int64
	wdl    int64
	laddr  net.Addr
	raddr  net.Addr
}

// Dial connects to a simulated listener (used by the harness clients).
func Dial(network, address string) (Conn, error) {
	if strings.HasPrefix(network, "udp") {
		ra, err := net.ResolveUDPAddr(network, address)
		if err != nil {
			return nil, err
		}
		c, err := DialUDP(network, nil, ra)
		if err != nil {
			return nil, err
		}
		return c, nil
	}
	a, err := net.ResolveTCPAddr(network, address)
	if err != nil {
		return nil, err
	}
	vrt.Op(nil, 0, "Dial")
	for _, l := range w.listeners {
		if !l.closed && l.addr.Port == a.Port {
			ca := &net.TCPAddr{IP: net.IPv4(127, 0, 0, 1), Port: w.port(0)}
			cl := &StreamConn{laddr: ca, raddr: l.addr}
			sv := &StreamConn{laddr: l.addr, raddr: ca}
			cl.peer, sv.peer = sv, cl
			l.q = append(l.q, sv)
			vrt.Progress()
			return cl, nil
		}
	}
	return nil, &net.OpError{Op: "dial", Net: network, Addr: a, Err: fmt.Errorf("connect: connection refused")}
}

func (c *StreamConn) Read(b []byte) (int, error) {
	vrt.Op(func() bool { return len(c.in) > 0 || c.inEOF || c.closed }, c.rdl, "Conn.Read")
	if c.closed {
		return 0, closedErr("read", "tcp")
	}
	if c.rdl != 0 && vrt.Now() >= c.rdl && vrt.Active() {
		return 0, timeoutErr("read", "tcp")
	}
	if len(c.in) > 0 {
		n := copy(b, c.in)
		c.in = c.in[n:]
		vrt.Progress()
		return n, nil
	}
	if c.inEOF {
		return 0, io.EOF
	}
	if !vrt.Active() {
		return 0, closedErr("read", "tcp")
	}
	return 0, timeoutErr("read", "tcp")
}
func (c *StreamConn) Write(b []byte) (int, error) {
	vrt.Op(nil, 0, "Conn.Write")
	if c.closed {
		return 0, closedErr("write", "tcp")
	}
	if c.peer.closed {
		return 0, &net.OpError{Op: "write", Net: "tcp", Err: fmt.Errorf("broken pipe")}
	}
	c.peer.in = append(c.peer.in, b...)
	vrt.Progress()
	return len(b), nil
}
func (c *StreamConn) Close() error {
	vrt.Op(nil, 0, "Conn.Close")
	if c.closed {
		return closedErr("close", "tcp")
	}
	c.closed = true
	c.peer.inEOF = true
	vrt.Progress()
	return nil
}
func (c *StreamConn) LocalAddr() Addr  { return c.laddr }
func (c *StreamConn) RemoteAddr() Addr { return c.raddr }
func (c *StreamConn) SetDeadline(t time.Time) error {
	if c.closed {
		return closedErr("set", "tcp")
	}
	c.rdl, c.wdl = vtime.ToVirtual(t), vtime.ToVirtual(t)
	return nil
}
func (c *StreamConn) SetReadDeadline(t time.Time) error {
	if c.closed {
		return closedErr("set", "tcp")
	}
	c.rdl = vtime.ToVirtual(t)
	return nil
}
func (c *StreamConn) SetWriteDeadline(t time.Time) error {
	if c.closed {
		return closedErr("set", "tcp")
	}
	c.wdl = vtime.ToVirtual(t)
	return nil
}
func (c *StreamConn) IsClosed() bool { return c.closed }

// ---- configuration-style entry points of package net, mapped onto the simulated network

type Resolver = net.Resolver

// Dialer mirrors net.Dialer; timeouts and keep-alives have no meaning on the simulated network.
type Dialer struct {
	Timeout       time.Duration
	Deadline      time.Time
	LocalAddr     Addr
	DualStack     bool
	FallbackDelay time.Duration
	KeepAlive     time.Duration
	Resolver      *Resolver
	Cancel        <-chan struct{}
}

func (d *Dialer) Dial(network, address string) (Conn, error) { return Dial(network, address) }
func (d *Dialer) DialContext(_ context.Context, network, address string) (Conn, error) {
	return Dial(network, address)
}
func DialTimeout(network, address string, _ time.Duration) (Conn, error) {
	return Dial(network, address)
}
func DialTCP(network string, _, raddr *TCPAddr) (Conn, error) { return Dial(network, raddr.String()) }

// ListenConfig mirrors net.ListenConfig.
type ListenConfig struct {
	KeepAlive time.Duration
}

func (lc *ListenConfig) Listen(_ context.Context, network, address string) (Listener, error) {
	return Listen(network, address)
}
func (lc *ListenConfig) ListenPacket(_ context.Context, network, address string) (PacketConn, error) {
	return ListenPacket(network, address)
}

// ListenPacket: UDP only.
func ListenPacket(network, address string) (PacketConn, error) {
	a, err := net.ResolveUDPAddr(network, address)
	if err != nil {
		return nil, err
	}
	return ListenUDP(network, a)
}

func ListenTCP(network string, laddr *TCPAddr) (Listener, error) {
	return Listen(network, laddr.String())
}

// ---- netip-flavoured and less common methods of *net.UDPConn / stream connections

func (c *UDPConn) ReadFromUDPAddrPort(b []byte) (int, netip.AddrPort, error) {
	n, a, err := c.ReadFromUDP(b)
	if a == nil {
		return n, netip.AddrPort{}, err
	}
	return n, a.AddrPort(), err
}
func (c *UDPConn) WriteToUDPAddrPort(b []byte, addr netip.AddrPort) (int, error) {
	return c.WriteToUDP(b, net.UDPAddrFromAddrPort(addr))
}
func (c *UDPConn) ReadMsgUDPAddrPort(b, oob []byte) (n, oobn, flags int, addr netip.AddrPort, err error) {
	n, addr, err = c.ReadFromUDPAddrPort(b)
	return
}
func (c *UDPConn) WriteMsgUDP(b, oob []byte, addr *UDPAddr) (n, oobn int, err error) {
	if addr == nil {
		n, err = c.Write(b)
	} else {
		n, err = c.WriteToUDP(b, addr)
	}
	return
}
func (c *UDPConn) WriteMsgUDPAddrPort(b, oob []byte, addr netip.AddrPort) (n, oobn int, err error) {
	n, err = c.WriteToUDPAddrPort(b, addr)
	return
}

func (c *StreamConn) SetKeepAlive(bool) error                { return nil }
func (c *StreamConn) SetKeepAlivePeriod(time.Duration) error { return nil }
func (c *StreamConn) SetNoDelay(bool) error                  { return nil }
func (c *StreamConn) SetLinger(int) error                    { return nil }
func (c *StreamConn) SetReadBuffer(int) error                { return nil }
func (c *StreamConn) SetWriteBuffer(int) error               { return nil }
