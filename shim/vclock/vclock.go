// Package vclock stands in for package time in packages whose wall-clock reads the harness wants to
// decide (mounted through a build overlay under the import name `time`): identical types (aliases),
// but Now — and Since/Until, which read the clock — ask the harness when a hook is installed.
package vclock

import stdtime "time"

type (
	Time       = stdtime.Time
	Duration   = stdtime.Duration
	Month      = stdtime.Month
	Weekday    = stdtime.Weekday
	Location   = stdtime.Location
	Timer      = stdtime.Timer
	Ticker     = stdtime.Ticker
	ParseError = stdtime.ParseError
)

const (
	Nanosecond  = stdtime.Nanosecond
	Microsecond = stdtime.Microsecond
	Millisecond = stdtime.Millisecond
	Second      = stdtime.Second
	Minute      = stdtime.Minute
	Hour        = stdtime.Hour

	January   = stdtime.January
	February  = stdtime.February
	March     = stdtime.March
	April     = stdtime.April
	May       = stdtime.May
	June      = stdtime.June
	July      = stdtime.July
	August    = stdtime.August
	September = stdtime.September
	October   = stdtime.October
	November  = stdtime.November
	December  = stdtime.December

	Sunday    = stdtime.Sunday
	Monday    = stdtime.Monday
	Tuesday   = stdtime.Tuesday
	Wednesday = stdtime.Wednesday
	Thursday  = stdtime.Thursday
	Friday    = stdtime.Friday
	Saturday  = stdtime.Saturday

	Layout      = stdtime.Layout
	ANSIC       = stdtime.ANSIC
	UnixDate    = stdtime.UnixDate
	RubyDate    = stdtime.RubyDate
	RFC822      = stdtime.RFC822
	RFC822Z     = stdtime.RFC822Z
	RFC850      = stdtime.RFC850
	RFC1123     = stdtime.RFC1123
	RFC1123Z    = stdtime.RFC1123Z
	RFC3339     = stdtime.RFC3339
	RFC3339Nano = stdtime.RFC3339Nano
	Kitchen     = stdtime.Kitchen
	Stamp       = stdtime.Stamp
	StampMilli  = stdtime.StampMilli
	StampMicro  = stdtime.StampMicro
	StampNano   = stdtime.StampNano
	DateTime    = stdtime.DateTime
	DateOnly    = stdtime.DateOnly
	TimeOnly    = stdtime.TimeOnly
)

var (
	UTC   = stdtime.UTC
	Local = stdtime.Local
)

// NowFunc, when set, answers every clock read of the instrumented package.
var NowFunc func() stdtime.Time

func Now() Time {
	if NowFunc != nil {
		return NowFunc()
	}
	return stdtime.Now()
}
func Since(t Time) Duration { return Now().Sub(t) }
func Until(t Time) Duration { return t.Sub(Now()) }

func Unix(sec, nsec int64) Time { return stdtime.Unix(sec, nsec) }
func UnixMilli(ms int64) Time   { return stdtime.UnixMilli(ms) }
func UnixMicro(us int64) Time   { return stdtime.UnixMicro(us) }
func Date(y int, m Month, d, h, mi, s, ns int, loc *Location) Time {
	return stdtime.Date(y, m, d, h, mi, s, ns, loc)
}
func Parse(layout, value string) (Time, error) { return stdtime.Parse(layout, value) }
func ParseInLocation(layout, value string, loc *Location) (Time, error) {
	return stdtime.ParseInLocation(layout, value, loc)
}
func ParseDuration(s string) (Duration, error)    { return stdtime.ParseDuration(s) }
func FixedZone(name string, offset int) *Location { return stdtime.FixedZone(name, offset) }
func LoadLocation(name string) (*Location, error) { return stdtime.LoadLocation(name) }
func Sleep(d Duration)                            { stdtime.Sleep(d) }
func After(d Duration) <-chan Time                { return stdtime.After(d) }
func AfterFunc(d Duration, f func()) *Timer       { return stdtime.AfterFunc(d, f) }
func NewTimer(d Duration) *Timer                  { return stdtime.NewTimer(d) }
func NewTicker(d Duration) *Ticker                { return stdtime.NewTicker(d) }
func Tick(d Duration) <-chan Time                 { return stdtime.Tick(d) }
