// Package vmaphash stands in for hash/maphash in instrumented packages: the real package seeds itself from the
// runtime's random source, so a table sharded by maphash would place names differently in every execution and
// no schedule could be replayed. Here seeds are handed out by a counter and the hash is FNV-1a over seed and data
// — still "some hash function of the seed", which is all the package promises.
package vmaphash

import (
	"encoding/binary"

	"github.com/TheManticoreProject/Manticore/zz_verif/vrt"
)

func init() { vrt.OnReset(ResetSeeds) }

type Seed struct{ s uint64 }

var next uint64 = 0x9E3779B97F4A7C15

// ResetSeeds makes the next MakeSeed deterministic again (called by the scheduler at the start of an execution).
func ResetSeeds() { next = 0x9E3779B97F4A7C15 }

func MakeSeed() Seed {
	next += 0x9E3779B97F4A7C15
	return Seed{next | 1}
}

func fnv(seed uint64, b []byte) uint64 {
	h := uint64(14695981039346656037) ^ seed
	var sb [8]byte
	binary.LittleEndian.PutUint64(sb[:], seed)
	for _, c := range sb {
		h ^= uint64(c)
		h *= 1099511628211
	}
	for _, c := range b {
		h ^= uint64(c)
		h *= 1099511628211
	}
	return h
}

func Bytes(seed Seed, b []byte) uint64  { return fnv(seed.s, b) }
func String(seed Seed, s string) uint64 { return fnv(seed.s, []byte(s)) }

type Hash struct {
	seed Seed
	set  bool
	buf  []byte
}

func (h *Hash) init() {
	if !h.set {
		h.seed, h.set = MakeSeed(), true
	}
}
func (h *Hash) SetSeed(s Seed) { h.seed, h.set, h.buf = s, true, h.buf[:0] }
func (h *Hash) Seed() Seed     { h.init(); return h.seed }
func (h *Hash) Reset()         { h.init(); h.buf = h.buf[:0] }
func (h *Hash) Write(b []byte) (int, error) {
	h.init()
	h.buf = append(h.buf, b...)
	return len(b), nil
}
func (h *Hash) WriteString(s string) (int, error) {
	h.init()
	h.buf = append(h.buf, s...)
	return len(s), nil
}
func (h *Hash) WriteByte(b byte) error { h.init(); h.buf = append(h.buf, b); return nil }
func (h *Hash) Sum64() uint64          { h.init(); return fnv(h.seed.s, h.buf) }
func (h *Hash) Sum(b []byte) []byte    { return binary.BigEndian.AppendUint64(b, h.Sum64()) }
func (h *Hash) Size() int              { return 8 }
func (h *Hash) BlockSize() int         { return 128 }
