// Package vrand replaces "math/rand" in instrumented library files: a deterministic
// sequence, reset at the start of every execution, handing out distinct values.
package vrand

import "github.com/TheManticoreProject/Manticore/zz_verif/vrt"

var ctr uint64

func init() { vrt.OnReset(func() { ctr = 0 }) }

func next() uint64 {
	ctr++
	return ctr * 0x1111
}

func Seed(int64)           {}
func Uint32() uint32       { return uint32(next()) }
func Uint64() uint64       { return next() }
func Uint() uint           { return uint(next()) }
func Int() int             { return int(next() & 0x7fffffffffffffff) }
func Int63() int64         { return int64(next() & 0x7fffffffffffffff) }
func Int31() int32         { return int32(next() & 0x7fffffff) }
func Intn(n int) int       { return int(next() % uint64(n)) }
func Int31n(n int32) int32 { return int32(next() % uint64(n)) }
func Int63n(n int64) int64 { return int64(next() % uint64(n)) }
func Float64() float64     { return float64(next()%1000) / 1000 }
func Read(p []byte) (int, error) {
	for i := range p {
		p[i] = byte(next())
	}
	return len(p), nil
}
