// Package dialnet stands in for package net in network/netbios/nbt (mounted through the build
// overlay of check C11, import name `net`): identical types (aliases), but every way of
// establishing a connection hands out the connection the harness queued — so that the transport's
// own Connect runs, with whatever per-connection state it sets up, over a scripted net.Conn.
package dialnet

import (
	"context"
	"errors"
	stdnet "net"
	"time"
)

type (
	Conn                = stdnet.Conn
	Addr                = stdnet.Addr
	IP                  = stdnet.IP
	IPMask              = stdnet.IPMask
	IPNet               = stdnet.IPNet
	TCPAddr             = stdnet.TCPAddr
	TCPConn             = stdnet.TCPConn
	UDPAddr             = stdnet.UDPAddr
	Error               = stdnet.Error
	OpError             = stdnet.OpError
	AddrError           = stdnet.AddrError
	Listener            = stdnet.Listener
	Buffers             = stdnet.Buffers
	Resolver            = stdnet.Resolver
	HardwareAddr        = stdnet.HardwareAddr
	DNSError            = stdnet.DNSError
	ParseError          = stdnet.ParseError
	UnknownNetworkError = stdnet.UnknownNetworkError
)

var (
	ErrClosed    = stdnet.ErrClosed
	IPv4zero     = stdnet.IPv4zero
	IPv6zero     = stdnet.IPv6zero
	IPv4bcast    = stdnet.IPv4bcast
	IPv6loopback = stdnet.IPv6loopback
)

const (
	IPv4len = stdnet.IPv4len
	IPv6len = stdnet.IPv6len
)

func IPv4(a, b, c, d byte) IP                        { return stdnet.IPv4(a, b, c, d) }
func ParseIP(s string) IP                            { return stdnet.ParseIP(s) }
func JoinHostPort(h, p string) string                { return stdnet.JoinHostPort(h, p) }
func SplitHostPort(s string) (string, string, error) { return stdnet.SplitHostPort(s) }
func ResolveTCPAddr(n, a string) (*TCPAddr, error)   { return stdnet.ResolveTCPAddr(n, a) }
func CIDRMask(ones, bits int) IPMask                 { return stdnet.CIDRMask(ones, bits) }
func ParseCIDR(s string) (IP, *IPNet, error)         { return stdnet.ParseCIDR(s) }
func Pipe() (Conn, Conn)                             { return stdnet.Pipe() }

// Next is the connection the next dial returns; Dials records (network, address) of every dial.
var (
	Next  stdnet.Conn
	Dials []string
)

func dial(network, address string) (Conn, error) {
	Dials = append(Dials, network+" "+address)
	if Next == nil {
		return nil, &stdnet.OpError{Op: "dial", Net: network, Err: errors.New("connection refused (harness queued no connection)")}
	}
	c := Next
	Next = nil
	return c, nil
}

func Dial(network, address string) (Conn, error) { return dial(network, address) }
func DialTimeout(network, address string, _ time.Duration) (Conn, error) {
	return dial(network, address)
}

type Dialer struct {
	Timeout       time.Duration
	Deadline      time.Time
	LocalAddr     Addr
	DualStack     bool
	FallbackDelay time.Duration
	KeepAlive     time.Duration
	Resolver      *Resolver
	Cancel        <-chan struct{}
}

func (d *Dialer) Dial(network, address string) (Conn, error) { return dial(network, address) }
func (d *Dialer) DialContext(_ context.Context, network, address string) (Conn, error) {
	return dial(network, address)
}
