// Package vcontext stands in for package context in instrumented packages: the same interface (aliases),
// cancellation as in the standard library, but deadlines and timeouts run on the scheduler's VIRTUAL clock.
package vcontext

import (
	stdctx "context"
	"time"

	"github.com/TheManticoreProject/Manticore/zz_verif/vrt"
	"github.com/TheManticoreProject/Manticore/zz_verif/vtime"
)

type (
	Context         = stdctx.Context
	CancelFunc      = stdctx.CancelFunc
	CancelCauseFunc = stdctx.CancelCauseFunc
)

var (
	Canceled         = stdctx.Canceled
	DeadlineExceeded = stdctx.DeadlineExceeded
)

func Background() Context                                  { return stdctx.Background() }
func TODO() Context                                        { return stdctx.TODO() }
func WithValue(p Context, k, v any) Context                { return stdctx.WithValue(p, k, v) }
func WithoutCancel(p Context) Context                      { return stdctx.WithoutCancel(p) }
func Cause(c Context) error                                { return stdctx.Cause(c) }
func WithCancelCause(p Context) (Context, CancelCauseFunc) { return stdctx.WithCancelCause(p) }

// WithCancel: the standard one propagates a parent's cancellation from a goroutine of its own; here the
// propagation is a scheduler thread, so that it happens at a point the explorer controls.
func WithCancel(p Context) (Context, CancelFunc) {
	c, cancel := stdctx.WithCancel(stdctx.WithoutCancel(p))
	watch(p, c, cancel)
	return c, cancel
}

func watch(parent, child Context, cancel func()) {
	if parent.Done() == nil {
		return
	}
	vrt.GoNamed("ctx-propagate", func() {
		vrt.Op(func() bool {
			select {
			case <-parent.Done():
				return true
			case <-child.Done():
				return true
			default:
				return false
			}
		}, 0, "ctx.parent-or-child-done")
		cancel()
	})
}

type deadlineCtx struct {
	Context
	deadline time.Time
	timedOut *bool
}

func (d *deadlineCtx) Deadline() (time.Time, bool) { return d.deadline, true }
func (d *deadlineCtx) Err() error {
	if d.Context.Err() != nil && *d.timedOut {
		return DeadlineExceeded
	}
	return d.Context.Err()
}

func WithTimeout(p Context, d time.Duration) (Context, CancelFunc) {
	return WithDeadline(p, vtime.Now().Add(d))
}

func WithDeadline(p Context, t time.Time) (Context, CancelFunc) {
	inner, cancel := WithCancel(p)
	timedOut := false
	d := t.Sub(vtime.Now())
	if d <= 0 {
		timedOut = true
		cancel()
	} else {
		vtime.AfterFunc(d, func() {
			if inner.Err() == nil {
				timedOut = true
				cancel()
			}
		})
	}
	return &deadlineCtx{Context: inner, deadline: t, timedOut: &timedOut}, cancel
}

// AfterFunc runs f in a scheduler thread once ctx is done; stop reports whether it prevented that.
func AfterFunc(ctx Context, f func()) (stop func() bool) {
	stopped, fired := false, false
	if ctx.Done() != nil {
		vrt.GoNamed("ctx-afterfunc", func() {
			vrt.Op(func() bool {
				if stopped {
					return true
				}
				select {
				case <-ctx.Done():
					return true
				default:
					return false
				}
			}, 0, "ctx.AfterFunc-wait")
			if !stopped {
				fired = true
				f()
			}
		})
	}
	return func() bool {
		if fired || stopped {
			return false
		}
		stopped = true
		vrt.Progress()
		return true
	}
}
