// Package vsync replaces "sync" in instrumented library files (engine E3).
// Every operation another thread can observe the effect of is a scheduling point (lock
// acquisition, waits, sync.Map reads AND writes); pure releases (Unlock, Done), whose only
// observers are blocked threads, just record progress.
package vsync

import "github.com/TheManticoreProject/Manticore/zz_verif/vrt"

type Locker interface {
	Lock()
	Unlock()
}

type Mutex struct{ locked bool }

func (m *Mutex) Lock() {
	vrt.Op(func() bool { return !m.locked }, 0, "Mutex.Lock")
	m.locked = true
	vrt.AcquiredPoint("Mutex.held")
}
func (m *Mutex) TryLock() bool {
	vrt.Op(nil, 0, "Mutex.TryLock")
	if m.locked {
		return false
	}
	m.locked = true
	return true
}
func (m *Mutex) Unlock() {
	if !m.locked && !vrt.Aborting() {
		panic("sync: unlock of unlocked mutex")
	}
	m.locked = false
	vrt.Progress()
	vrt.ReleasePoint("Mutex.Unlock") // others may run right after the release (catches work done after a too-early unlock)
}

type RWMutex struct {
	writer  bool
	readers int
}

func (m *RWMutex) Lock() {
	vrt.Op(func() bool { return !m.writer && m.readers == 0 }, 0, "RWMutex.Lock")
	m.writer = true
	vrt.AcquiredPoint("RWMutex.held")
}
func (m *RWMutex) Unlock() {
	if !m.writer && !vrt.Aborting() {
		panic("sync: Unlock of unlocked RWMutex")
	}
	m.writer = false
	vrt.Progress()
	vrt.ReleasePoint("RWMutex.Unlock")
}
func (m *RWMutex) RLock() {
	vrt.Op(func() bool { return !m.writer }, 0, "RWMutex.RLock")
	m.readers++
	vrt.AcquiredPoint("RWMutex.rheld")
}
func (m *RWMutex) RUnlock() {
	if m.readers <= 0 && !vrt.Aborting() {
		panic("sync: RUnlock of unlocked RWMutex")
	}
	m.readers--
	vrt.Progress()
	vrt.ReleasePoint("RWMutex.RUnlock")
}
func (m *RWMutex) TryLock() bool {
	vrt.Op(nil, 0, "RWMutex.TryLock")
	if m.writer || m.readers > 0 {
		return false
	}
	m.writer = true
	return true
}
func (m *RWMutex) TryRLock() bool {
	vrt.Op(nil, 0, "RWMutex.TryRLock")
	if m.writer {
		return false
	}
	m.readers++
	return true
}
func (m *RWMutex) RLocker() Locker { return (*rlocker)(m) }

type rlocker RWMutex

func (r *rlocker) Lock()   { (*RWMutex)(r).RLock() }
func (r *rlocker) Unlock() { (*RWMutex)(r).RUnlock() }

type WaitGroup struct {
	n       int
	waiting int // threads inside Wait (blocked, or released but not yet resumed)
}

func (w *WaitGroup) Add(d int) {
	// "calls with a positive delta that occur when the counter is zero must happen before a Wait" (package sync):
	// the real WaitGroup panics ("WaitGroup is reused before previous Wait has returned" / "Add called concurrently
	// with Wait") when it notices; here the misuse is noticed on every schedule that contains it
	if d > 0 && w.n == 0 && w.waiting > 0 && !vrt.Aborting() {
		panic("sync: WaitGroup misuse: Add called concurrently with Wait (counter was zero and a Wait has not returned yet)")
	}
	w.n += d
	if w.n < 0 && !vrt.Aborting() {
		panic("sync: negative WaitGroup counter")
	}
	vrt.Progress()
}
func (w *WaitGroup) Done() { w.Add(-1) }
func (w *WaitGroup) Wait() {
	w.waiting++
	vrt.Op(func() bool { return w.n <= 0 }, 0, "WaitGroup.Wait")
	w.waiting--
}
func (w *WaitGroup) Go(f func()) {
	w.Add(1)
	vrt.Go(func() { defer w.Done(); f() })
}

type Once struct {
	done    bool
	running bool
}

func (o *Once) Do(f func()) {
	vrt.Op(func() bool { return !o.running }, 0, "Once.Do")
	if o.done {
		return
	}
	o.running = true
	defer func() {
		o.running = false
		o.done = true
		vrt.Progress()
	}()
	f()
}

// Map is a deterministic (insertion-ordered) sync.Map.
type Map struct {
	keys []any
	vals map[any]any
}

func (m *Map) init() {
	if m.vals == nil {
		m.vals = map[any]any{}
	}
}
func (m *Map) Load(key any) (any, bool) {
	vrt.Op(nil, 0, "Map.Load")
	m.init()
	v, ok := m.vals[key]
	return v, ok
}
func (m *Map) Store(key, value any) {
	vrt.Op(nil, 0, "Map.Store")
	m.store(key, value)
}

func (m *Map) store(key, value any) {
	m.init()
	if _, ok := m.vals[key]; !ok {
		m.keys = append(m.keys, key)
	}
	m.vals[key] = value
	vrt.Progress()
}
func (m *Map) LoadOrStore(key, value any) (any, bool) {
	vrt.Op(nil, 0, "Map.LoadOrStore")
	m.init()
	if v, ok := m.vals[key]; ok {
		return v, true
	}
	m.store(key, value)
	return value, false
}
func (m *Map) LoadAndDelete(key any) (any, bool) {
	vrt.Op(nil, 0, "Map.LoadAndDelete")
	m.init()
	v, ok := m.vals[key]
	if ok {
		m.del(key)
	}
	return v, ok
}
func (m *Map) Delete(key any) {
	vrt.Op(nil, 0, "Map.Delete")
	m.del(key)
}

func (m *Map) del(key any) {
	m.init()
	if _, ok := m.vals[key]; ok {
		delete(m.vals, key)
		for i, k := range m.keys {
			if k == key {
				m.keys = append(m.keys[:i:i], m.keys[i+1:]...)
				break
			}
		}
	}
	vrt.Progress()
}
func (m *Map) Swap(key, value any) (any, bool) {
	vrt.Op(nil, 0, "Map.Swap")
	m.init()
	v, ok := m.vals[key]
	m.store(key, value)
	return v, ok
}
func (m *Map) CompareAndSwap(key, old, new any) bool {
	vrt.Op(nil, 0, "Map.CompareAndSwap")
	m.init()
	if v, ok := m.vals[key]; ok && v == old {
		m.vals[key] = new
		vrt.Progress()
		return true
	}
	return false
}
func (m *Map) CompareAndDelete(key, old any) bool {
	vrt.Op(nil, 0, "Map.CompareAndDelete")
	m.init()
	if v, ok := m.vals[key]; ok && v == old {
		m.del(key)
		return true
	}
	return false
}
func (m *Map) Range(f func(key, value any) bool) {
	vrt.Op(nil, 0, "Map.Range")
	m.init()
	ks := append([]any{}, m.keys...)
	for _, k := range ks {
		v, ok := m.vals[k]
		if !ok {
			continue
		}
		if !f(k, v) {
			break
		}
	}
}
func (m *Map) Clear() {
	vrt.Op(nil, 0, "Map.Clear")
	m.keys = nil
	m.vals = nil
	vrt.Progress()
}

// Cond is not simulated; instrumented code that needs it fails to build (harness error).

// Pool passes through (no scheduling relevance).
type Pool struct {
	New   func() any
	items []any
}

func (p *Pool) Get() any {
	if n := len(p.items); n > 0 {
		x := p.items[n-1]
		p.items = p.items[:n-1]
		return x
	}
	if p.New != nil {
		return p.New()
	}
	return nil
}
func (p *Pool) Put(x any) { p.items = append(p.items, x) }

func OnceFunc(f func()) func() {
	var o Once
	return func() { o.Do(f) }
}

// Cond: Wait releases L, blocks until a Signal/Broadcast issued after it started waiting, re-acquires L.
type Cond struct {
	L       Locker
	waiters []*bool
}

func NewCond(l Locker) *Cond { return &Cond{L: l} }

func (c *Cond) Wait() {
	woken := false
	c.waiters = append(c.waiters, &woken)
	c.L.Unlock()
	vrt.Op(func() bool { return woken }, 0, "Cond.Wait")
	c.L.Lock()
}

func (c *Cond) Signal() {
	vrt.Op(nil, 0, "Cond.Signal")
	if len(c.waiters) > 0 {
		*c.waiters[0] = true
		c.waiters = c.waiters[1:]
		vrt.Progress()
	}
}

func (c *Cond) Broadcast() {
	vrt.Op(nil, 0, "Cond.Broadcast")
	for _, w := range c.waiters {
		*w = true
	}
	if len(c.waiters) > 0 {
		vrt.Progress()
	}
	c.waiters = nil
}

func OnceValue[T any](f func() T) func() T {
	var o Once
	var v T
	return func() T { o.Do(func() { v = f() }); return v }
}

func OnceValues[T1, T2 any](f func() (T1, T2)) func() (T1, T2) {
	var o Once
	var a T1
	var b T2
	return func() (T1, T2) { o.Do(func() { a, b = f() }); return a, b }
}
