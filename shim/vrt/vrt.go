// Package vrt is the controlled cooperative scheduler of engine E3.
//
// Threads are real goroutines; exactly one holds the baton. Every shim operation
// (lock, wait, conn read, channel poll …) calls Op, which is a scheduling point:
// the scheduler computes the enabled set, asks the explorer which thread runs next,
// and hands the baton over. Virtual time advances only at quiescence.
//
// The package is mounted into the Manticore module by a build overlay as
// github.com/TheManticoreProject/Manticore/zz_verif/vrt so that instrumented library
// files and the harness share it.
package vrt

import (
	"cmp"
	"fmt"
	"runtime/debug"
	"slices"
	"strings"
)

// Chooser decides scheduling alternatives: n alternatives, cost[i] deviations for alternative i.
type Chooser interface {
	ChooseCost(n int, label string, cost []int) int
}

type T struct {
	ID   int
	Name string

	wake      chan struct{}
	fin       chan struct{}
	pred      func() bool
	deadline  int64
	desc      string
	yielded   bool
	yieldSeen uint64
	done      bool
	started   bool
	fn        func()
	// TimedOut is set when the thread was woken because its deadline passed.
	timedOut  bool
	unwinding bool
}

func (t *T) Done() bool { return t.done }

type timer struct {
	at    int64
	fire  func()
	fired bool
}

// Outcome of one execution.
type Outcome struct {
	Deadlock   bool
	StepCap    bool
	Panic      string // library/harness panic text (with thread name), "" if none
	PanicStack string
	Blocked    []string // on deadlock: "name@desc" of every blocked thread
	Steps      int
	Preempts   int
	Threads    int
	Trace      []string
}

type Sched struct {
	ch       Chooser
	threads  []*T
	cur      *T
	steps    int
	MaxSteps int
	progress uint64
	now      int64
	timers   []*timer
	aborted  bool
	finished chan struct{}
	isFin    bool
	out      Outcome
	TraceOn  bool
	// FreeSwitchCost is the deviation cost of picking a non-first thread when the running thread
	// is not enabled (0 = classic preemption bounding, 1 = delay bounding).
	FreeSwitchCost int
	resets         []func()
	lastID         int
	faults         int
}

var cur *Sched

// ReleasePoints makes pure releases (Unlock, RUnlock) scheduling points too: another thread may
// run right after the release, which exposes work done after a too-early unlock. Harnesses switch
// it on where the extra points are affordable.
var ReleasePoints bool

// FaultBudget is the number of environment faults (a failed read, a failed accept) the explorer may
// inject per execution; each injected fault costs one deviation. 0 = the environment never fails.
var FaultBudget int

// Fault is called by the simulated network at a point where the real environment could fail; it
// reports whether the explorer decided to inject the fault here.
func Fault(desc string) bool {
	s := cur
	if s == nil || s.aborted || FaultBudget <= 0 || s.faults >= FaultBudget {
		return false
	}
	if s.ch.ChooseCost(2, "fault:"+desc, []int{0, 1}) == 1 {
		s.faults++
		if s.TraceOn {
			s.out.Trace = append(s.out.Trace, "FAULT:"+desc)
		}
		return true
	}
	return false
}

// SelectOrders lets the explorer decide which case of a multi-case select is tried first (every rotation other
// than source order costs one deviation). When false, selects poll their cases in source order — still
// deterministic, which Go's own uniformly random choice among ready cases is not.
var SelectOrders bool

// SelectOrder is called once per execution of a select with n >= 2 communications.
func SelectOrder(n int) int {
	s := cur
	if n < 2 || !SelectOrders || s == nil || s.aborted {
		return 0
	}
	cost := make([]int, n)
	for i := 1; i < n; i++ {
		cost[i] = 1
	}
	o := s.ch.ChooseCost(n, "select-order", cost)
	if o != 0 && s.TraceOn {
		s.out.Trace = append(s.out.Trace, fmt.Sprintf("SELECT-ORDER:%d", o))
	}
	return o
}

// AcquirePoints makes every successful lock acquisition a scheduling point as well, so that other threads can
// run WHILE the lock is held. With blocking locks only this adds nothing (they would just block), which is why
// it is off by default; the instrumenter switches it on when the code under test calls TryLock / TryRLock,
// whose result depends on exactly that.
var AcquirePoints bool

// AcquiredPoint is called by the shims right after a lock was taken.
func AcquiredPoint(desc string) {
	if AcquirePoints {
		Op(nil, 0, desc)
	}
}

// ReleasePoint is called by the shims after a release.
func ReleasePoint(desc string) {
	if ReleasePoints {
		Op(nil, 0, desc)
	}
}

type abortT struct{}

var abortSentinel = abortT{}

// Active reports whether a controlled execution is running (shims fall back to no-ops otherwise).
func Active() bool { return cur != nil && !cur.aborted }

// Aborting reports whether the current execution is being torn down.
func Aborting() bool { return cur == nil || cur.aborted }

// Now is the virtual time in ns since the virtual epoch.
func Now() int64 {
	if cur == nil {
		return 0
	}
	return cur.now
}

// Progress marks a state change visible to other threads (re-enables yielded spinners).
func Progress() {
	if cur != nil {
		cur.progress++
	}
}

// Run executes root under the scheduler until it returns (or deadlock / step cap / panic),
// then tears down every remaining thread, one at a time.
func Run(ch Chooser, maxSteps int, freeSwitchCost int, trace bool, root func()) Outcome {
	s := &Sched{now: 1000, ch: ch, MaxSteps: maxSteps, finished: make(chan struct{}), TraceOn: trace, FreeSwitchCost: freeSwitchCost}
	cur = s
	for _, r := range resetHooks {
		r()
	}
	rt := s.newThread("root", root)
	s.cur = rt
	rt.started = true
	go s.threadMain(rt)
	rt.wake <- struct{}{}
	<-s.finished
	// tear down: unwind parked threads sequentially
	s.aborted = true
	for i := 0; i < len(s.threads); i++ { // threads may not grow while aborted
		t := s.threads[i]
		if t.done {
			continue
		}
		if !t.started {
			t.done = true
			close(t.fin)
			continue
		}
		if t.unwinding {
			<-t.fin
			continue
		}
		t.wake <- struct{}{}
		<-t.fin
	}
	s.out.Steps = s.steps
	s.out.Threads = len(s.threads)
	cur = nil
	return s.out
}

var resetHooks []func()

// OnReset registers a hook run at the start of every execution (shims reset their global state).
func OnReset(f func()) { resetHooks = append(resetHooks, f) }

func (s *Sched) newThread(name string, fn func()) *T {
	t := &T{ID: len(s.threads), Name: name, wake: make(chan struct{}), fin: make(chan struct{}), fn: fn}
	s.threads = append(s.threads, t)
	return t
}

func (s *Sched) threadMain(t *T) {
	<-t.wake
	defer close(t.fin)
	if s.aborted {
		t.done = true
		return
	}
	defer func() {
		if r := recover(); r != nil {
			t.done = true
			if _, ok := r.(abortT); ok {
				return
			}
			// a real panic in library or harness code
			if !s.isFin && !s.aborted {
				s.out.Panic = fmt.Sprintf("thread %s: %v", t.Name, r)
				s.out.PanicStack = trimStack(string(debug.Stack()))
				s.finish()
			}
			return
		}
	}()
	t.fn()
	s.exit(t)
}

func trimStack(st string) string {
	lines := strings.Split(st, "\n")
	var keep []string
	for _, l := range lines {
		if strings.Contains(l, "Manticore") || strings.Contains(l, "verif") {
			keep = append(keep, strings.TrimSpace(l))
		}
		if len(keep) > 24 {
			break
		}
	}
	return strings.Join(keep, " | ")
}

func (s *Sched) finish() {
	if !s.isFin {
		s.isFin = true
		s.aborted = true
		close(s.finished)
	}
}

func (s *Sched) exit(t *T) {
	t.done = true
	s.progress++
	if t.ID == 0 { // root returned: execution over
		s.finish()
		return
	}
	next := s.pick(nil)
	if next == nil {
		return // finished (deadlock recorded) — teardown handles the rest
	}
	s.cur = next
	s.start(next)
}

func (s *Sched) start(t *T) {
	if !t.started {
		t.started = true
		go s.threadMain(t)
	}
	t.wake <- struct{}{}
}

func (s *Sched) enabled(t *T) bool {
	if t.done {
		return false
	}
	if t.yielded {
		return s.progress > t.yieldSeen
	}
	if t.pred == nil || t.pred() {
		return true
	}
	if t.deadline != 0 && s.now >= t.deadline {
		return true
	}
	return false
}

// pick chooses the next thread; from is the thread calling (nil when it is exiting).
func (s *Sched) pick(from *T) *T {
	for {
		var en []*T
		fromEnabled := false
		if from != nil && s.enabled(from) {
			en = append(en, from)
			fromEnabled = true
		}
		// the others in round-robin order after the thread that ran last
		base := s.lastID
		if from != nil {
			base = from.ID
		}
		n := len(s.threads)
		for k := 1; k <= n; k++ {
			t := s.threads[(base+k)%n]
			if t != from && s.enabled(t) {
				en = append(en, t)
			}
		}
		if len(en) > 0 {
			idx := 0
			if len(en) > 1 {
				cost := make([]int, len(en))
				for i := 1; i < len(en); i++ {
					if fromEnabled {
						cost[i] = 1
					} else {
						cost[i] = s.FreeSwitchCost
					}
				}
				idx = s.ch.ChooseCost(len(en), "", cost)
			}
			if idx > 0 && fromEnabled {
				s.out.Preempts++
			}
			s.lastID = en[idx].ID
			return en[idx]
		}
		// nobody enabled: advance virtual time to the earliest deadline / timer
		var next int64
		found := false
		for _, t := range s.threads {
			if !t.done && !t.yielded && t.deadline > s.now && (!found || t.deadline < next) {
				next, found = t.deadline, true
			}
		}
		for _, tm := range s.timers {
			if !tm.fired && (!found || tm.at < next) {
				next, found = tm.at, true
			}
		}
		if !found {
			// deadlock (or livelock of spinners): nobody can ever run again
			s.out.Deadlock = true
			for _, t := range s.threads {
				if !t.done {
					d := t.desc
					if t.yielded {
						d = "spinning:" + d
					}
					s.out.Blocked = append(s.out.Blocked, t.Name+"@"+d)
				}
			}
			if from != nil {
				from.unwinding = true
			}
			s.finish()
			return nil
		}
		if next > s.now {
			s.now = next
		}
		for _, tm := range s.timers {
			if !tm.fired && tm.at <= s.now {
				tm.fired = true
				tm.fire()
				s.progress++
			}
		}
	}
}

// Op is a scheduling point. The calling thread continues when it is chosen and
// (pred == nil || pred() || deadline passed). It reports whether it was resumed by deadline only.
func Op(pred func() bool, deadline int64, desc string) (timedOut bool) {
	s := cur
	if s == nil {
		return false
	}
	if s.aborted {
		return false
	}
	return s.op(pred, deadline, desc, false)
}

func (s *Sched) op(pred func() bool, deadline int64, desc string, yield bool) bool {
	t := s.cur
	t.pred, t.deadline, t.desc, t.yielded = pred, deadline, desc, yield
	if yield {
		t.yieldSeen = s.progress
	}
	s.steps++
	if s.steps > s.MaxSteps {
		s.out.StepCap = true
		t.unwinding = true
		s.finish()
		panic(abortSentinel)
	}
	next := s.pick(t)
	if next == nil {
		panic(abortSentinel)
	}
	if next != t {
		s.cur = next
		s.start(next)
		<-t.wake
		if s.aborted {
			panic(abortSentinel)
		}
	}
	to := false
	if !yield && pred != nil && !pred() {
		to = true // resumed by deadline
	}
	t.pred, t.deadline, t.yielded = nil, 0, false
	if s.TraceOn {
		s.out.Trace = append(s.out.Trace, fmt.Sprintf("T%d(%s):%s", t.ID, t.Name, desc))
	}
	return to
}

// Point is a plain scheduling point (always enabled).
func Point() { Op(nil, 0, "point") }

// PointD is Point with a description.
func PointD(desc string) { Op(nil, 0, desc) }

// Yield is called inside spin/poll loops: the thread is not rescheduled until another
// thread (or a timer) has made progress.
func Yield() {
	s := cur
	if s == nil || s.aborted {
		if s != nil && s.aborted {
			panic(abortSentinel) // break out of spin loops during teardown
		}
		return
	}
	s.op(nil, 0, "yield", true)
}

// Go spawns a controlled thread.
func Go(fn func()) *T { return GoNamed("", fn) }

func GoNamed(name string, fn func()) *T {
	s := cur
	if s == nil {
		panic("vrt.Go outside a controlled execution")
	}
	if s.aborted {
		return &T{done: true}
	}
	if name == "" {
		name = fmt.Sprintf("g%d", len(s.threads))
	}
	t := s.newThread(name, fn)
	s.progress++
	return t
}

// Join blocks until t has finished.
func Join(t *T) { Op(func() bool { return t.done }, 0, "join "+t.Name) }

// Sleep blocks for d virtual nanoseconds.
func Sleep(d int64) {
	s := cur
	if s == nil || s.aborted {
		return
	}
	s.op(func() bool { return false }, s.now+d, "sleep", false)
}

// AddTimer registers fire to run when virtual time reaches now+d (at quiescence).
func AddTimer(d int64, fire func()) {
	s := cur
	if s == nil || s.aborted {
		return
	}
	if d < 0 {
		d = 0
	}
	s.timers = append(s.timers, &timer{at: s.now + d, fire: fire})
}

// Drain (root only) lets every other thread run until all have finished, or nothing can run
// any more, or horizon virtual ns have elapsed; it returns the descriptions of the threads
// that are still alive.
func Drain(horizon int64) []string {
	s := cur
	if s == nil || s.aborted {
		return nil
	}
	others := func() bool {
		for _, t := range s.threads {
			if t.ID != 0 && !t.done {
				return false
			}
		}
		return true
	}
	s.op(others, s.now+horizon, "drain", false)
	var alive []string
	for _, t := range s.threads {
		if t.ID != 0 && !t.done {
			d := t.desc
			if t.yielded {
				d = "spinning"
			}
			alive = append(alive, t.Name+"@"+d)
		}
	}
	return alive
}

// Alive lists threads (other than root) that have not finished.
func Alive() []string {
	s := cur
	if s == nil {
		return nil
	}
	var alive []string
	for _, t := range s.threads {
		if t.ID != 0 && !t.done {
			alive = append(alive, t.Name+"@"+t.desc)
		}
	}
	return alive
}

// ---- channel helpers used by instrumented code -------------------------------------------

// Zero returns the zero value of a channel's element type (used by instrumented selects).
func Zero[E any](ch <-chan E) (z E) { return }

// Recv is a blocking receive made visible to the scheduler.
func Recv[E any](ch <-chan E) E {
	for {
		Point()
		select {
		case v := <-ch:
			Progress()
			return v
		default:
			Yield()
		}
	}
}

// Recv2 is `v, ok := <-ch`.
func Recv2[E any](ch <-chan E) (E, bool) {
	for {
		Point()
		select {
		case v, ok := <-ch:
			Progress()
			return v, ok
		default:
			Yield()
		}
	}
}

// Send is a blocking send made visible to the scheduler.
func Send[E any](ch chan<- E, v E) {
	for {
		Point()
		select {
		case ch <- v:
			Progress()
			return
		default:
			Yield()
		}
	}
}

// SortedKeys returns the keys of m in ascending order (the instrumenter routes ranges over maps with ordered keys
// through it: Go leaves the iteration order to the runtime, the explorer needs one it can reproduce).
func SortedKeys[M ~map[K]V, K cmp.Ordered, V any](m M) []K {
	ks := make([]K, 0, len(m))
	for k := range m {
		ks = append(ks, k)
	}
	slices.Sort(ks)
	return ks
}
