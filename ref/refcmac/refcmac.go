// Package refcmac is the independent reference for property C12:
//
//   - CMAC (RFC 4493 / NIST SP 800-38B) as a one-shot function over any
//     cipher.Block with a 64- or 128-bit block, in two structurally different
//     implementations (A: uint64 shift arithmetic and block-wise CBC; B: math/big
//     polynomial doubling in GF(2^b) and a "previous block" formulation) that must agree;
//   - the RC4 key-stream generator written from the algorithm description
//     (used to self-test the stdlib oracle on RFC 6229 vectors);
//   - PKCS#7 validity predicate and padder;
//   - Group Policy Preferences password encryption (MS-GPPREF 2.2.1.1.4): AES-256-CBC
//     written block by block, zero IV, Microsoft's published key, PKCS#7, UTF-16LE, base64.
//
// It imports nothing from the library under test.
package refcmac

import (
	"bytes"
	"crypto/aes"
	"crypto/cipher"
	"crypto/des"
	"encoding/base64"
	"encoding/binary"
	"encoding/hex"
	"fmt"
	"math/big"
	"unicode/utf16"
)

// ---------------------------------------------------------------- CMAC, implementation A

// SubkeysA derives K1, K2 with uint64 arithmetic (SP 800-38B §6.1).
func SubkeysA(c cipher.Block) (k1, k2 []byte) {
	b := c.BlockSize()
	l := make([]byte, b)
	c.Encrypt(l, l)
	k1 = dblA(l)
	k2 = dblA(k1)
	return
}

func dblA(in []byte) []byte {
	out := make([]byte, len(in))
	switch len(in) {
	case 8:
		v := binary.BigEndian.Uint64(in)
		msb := v >> 63
		v <<= 1
		if msb == 1 {
			v ^= 0x1b
		}
		binary.BigEndian.PutUint64(out, v)
	case 16:
		hi := binary.BigEndian.Uint64(in[:8])
		lo := binary.BigEndian.Uint64(in[8:])
		msb := hi >> 63
		hi = hi<<1 | lo>>63
		lo <<= 1
		if msb == 1 {
			lo ^= 0x87
		}
		binary.BigEndian.PutUint64(out[:8], hi)
		binary.BigEndian.PutUint64(out[8:], lo)
	default:
		panic("refcmac: block size must be 8 or 16")
	}
	return out
}

// SumA is CMAC(K, m) by the text of RFC 4493 §2.4: n blocks, last block complete -> xor K1,
// otherwise pad 10..0 and xor K2, then plain CBC-MAC.
func SumA(c cipher.Block, m []byte) []byte {
	b := c.BlockSize()
	k1, k2 := SubkeysA(c)
	n := (len(m) + b - 1) / b
	complete := true
	if n == 0 {
		n = 1
		complete = false
	} else if len(m)%b != 0 {
		complete = false
	}
	last := make([]byte, b)
	if complete {
		copy(last, m[(n-1)*b:])
		for i := range last {
			last[i] ^= k1[i]
		}
	} else {
		rem := m[(n-1)*b:]
		copy(last, rem)
		last[len(rem)] = 0x80
		for i := range last {
			last[i] ^= k2[i]
		}
	}
	x := make([]byte, b)
	y := make([]byte, b)
	for i := 0; i < n-1; i++ {
		for j := 0; j < b; j++ {
			y[j] = x[j] ^ m[i*b+j]
		}
		c.Encrypt(x, y)
	}
	for j := 0; j < b; j++ {
		y[j] = x[j] ^ last[j]
	}
	t := make([]byte, b)
	c.Encrypt(t, y)
	return t
}

// ---------------------------------------------------------------- CMAC, implementation B

// dblB multiplies by x in GF(2^b) using math/big: (v << 1) mod (x^b + R).
func dblB(in []byte) []byte {
	b := len(in) * 8
	v := new(big.Int).SetBytes(in)
	v.Lsh(v, 1)
	if v.Bit(b) == 1 {
		v.SetBit(v, b, 0)
		r := int64(0x87)
		if b == 64 {
			r = 0x1b
		}
		v.Xor(v, big.NewInt(r))
	}
	out := make([]byte, len(in))
	v.FillBytes(out)
	return out
}

// SumB is the SP 800-38B §6.2 formulation: M = M1 || ... || Mn*, Mn = K1^Mn* or K2^(Mn*||10^j),
// with the message first materialised as a padded byte string and CBC run through
// crypto/cipher's CBC encrypter (last ciphertext block = MAC).
func SumB(c cipher.Block, m []byte) []byte {
	b := c.BlockSize()
	l := make([]byte, b)
	c.Encrypt(l, l)
	k1 := dblB(l)
	k2 := dblB(k1)
	buf := append([]byte{}, m...)
	k := k1
	if len(m) == 0 || len(m)%b != 0 {
		buf = append(buf, 0x80)
		for len(buf)%b != 0 {
			buf = append(buf, 0)
		}
		k = k2
	}
	off := len(buf) - b
	for i := 0; i < b; i++ {
		buf[off+i] ^= k[i]
	}
	out := make([]byte, len(buf))
	cipher.NewCBCEncrypter(c, make([]byte, b)).CryptBlocks(out, buf)
	return out[off:]
}

// Sum returns SumA after checking that SumB agrees; disagreement is a reference bug -> panic.
func Sum(c cipher.Block, m []byte) []byte {
	a := SumA(c, m)
	bb := SumB(c, m)
	if !bytes.Equal(a, bb) {
		panic(fmt.Sprintf("refcmac: implementations A and B disagree on %d-byte message: %x vs %x", len(m), a, bb))
	}
	return a
}

// ---------------------------------------------------------------- RC4 (own)

// RC4Keystream returns n key-stream bytes for key (1..256 bytes), from the algorithm description.
func RC4Keystream(key []byte, n int) []byte {
	var s [256]int
	for i := range s {
		s[i] = i
	}
	j := 0
	for i := 0; i < 256; i++ {
		j = (j + s[i] + int(key[i%len(key)])) % 256
		s[i], s[j] = s[j], s[i]
	}
	out := make([]byte, n)
	i := 0
	j = 0
	for k := 0; k < n; k++ {
		i = (i + 1) % 256
		j = (j + s[i]) % 256
		s[i], s[j] = s[j], s[i]
		out[k] = byte(s[(s[i]+s[j])%256])
	}
	return out
}

// RFC6229Keys are the fourteen keys of RFC 6229 (both families, 40..256 bits).
func RFC6229Keys() [][]byte {
	var out [][]byte
	for _, n := range []int{5, 7, 8, 10, 16, 24, 32} {
		k := make([]byte, n)
		for i := range k {
			k[i] = byte(i + 1)
		}
		out = append(out, k)
	}
	full := unhex("1ada31d5cf688221c109163908ebe51debb46227c6cc8b37641910833222772a")
	for _, n := range []int{5, 7, 8, 10, 16, 24, 32} {
		out = append(out, append([]byte{}, full[len(full)-n:]...))
	}
	return out
}

// ---------------------------------------------------------------- PKCS#7

// PKCS7Valid is the validity predicate of RFC 5652 §6.3 for a buffer without a known block
// size: the last byte p satisfies 1 <= p <= len and the last p bytes all equal p.
func PKCS7Valid(buf []byte) (padLen int, ok bool) {
	if len(buf) == 0 {
		return 0, false
	}
	p := int(buf[len(buf)-1])
	if p < 1 || p > len(buf) {
		return 0, false
	}
	for _, x := range buf[len(buf)-p:] {
		if int(x) != p {
			return 0, false
		}
	}
	return p, true
}

// PKCS7Pad pads a copy of m to a multiple of block (1..255).
func PKCS7Pad(m []byte, block int) []byte {
	p := block - len(m)%block
	out := make([]byte, 0, len(m)+p)
	out = append(out, m...)
	for i := 0; i < p; i++ {
		out = append(out, byte(p))
	}
	return out
}

// ---------------------------------------------------------------- GPP

// GPPKey is the AES-256 key published in MS-GPPREF 2.2.1.1.4.
var GPPKey = unhex("4e9906e8fcb66cc9faf49310620ffee8f496e806cc057990209b09a433b66c1b")

// UTF16LE encodes s (valid UTF-8) as UTF-16 little endian.
func UTF16LE(s string) []byte {
	u := utf16.Encode([]rune(s))
	out := make([]byte, 0, 2*len(u))
	for _, x := range u {
		out = append(out, byte(x), byte(x>>8))
	}
	return out
}

// GPPEncryptRaw returns the ciphertext bytes of password p (CBC written out block by block).
func GPPEncryptRaw(p string) []byte {
	blk, err := aes.NewCipher(GPPKey)
	if err != nil {
		panic(err)
	}
	pt := PKCS7Pad(UTF16LE(p), 16)
	ct := make([]byte, len(pt))
	prev := make([]byte, 16)
	x := make([]byte, 16)
	for off := 0; off < len(pt); off += 16 {
		for i := 0; i < 16; i++ {
			x[i] = pt[off+i] ^ prev[i]
		}
		blk.Encrypt(ct[off:off+16], x)
		prev = ct[off : off+16]
	}
	return ct
}

// GPPEncrypt is the base64 (standard alphabet, padded) cpassword for p.
func GPPEncrypt(p string) string { return base64.StdEncoding.EncodeToString(GPPEncryptRaw(p)) }

// GPPDecrypt decodes a cpassword (missing '=' tolerated) with the own CBC; ok=false on any malformation.
func GPPDecrypt(cpassword string) (string, bool) {
	for len(cpassword)%4 != 0 {
		cpassword += "="
	}
	ct, err := base64.StdEncoding.DecodeString(cpassword)
	if err != nil || len(ct) == 0 || len(ct)%16 != 0 {
		return "", false
	}
	blk, _ := aes.NewCipher(GPPKey)
	pt := make([]byte, len(ct))
	prev := make([]byte, 16)
	for off := 0; off < len(ct); off += 16 {
		blk.Decrypt(pt[off:off+16], ct[off:off+16])
		for i := 0; i < 16; i++ {
			pt[off+i] ^= prev[i]
		}
		prev = ct[off : off+16]
	}
	p, ok := PKCS7Valid(pt)
	if !ok || (len(pt)-p)%2 != 0 {
		return "", false
	}
	pt = pt[:len(pt)-p]
	u := make([]uint16, len(pt)/2)
	for i := range u {
		u[i] = uint16(pt[2*i]) | uint16(pt[2*i+1])<<8
	}
	return string(utf16.Decode(u)), true
}

// ---------------------------------------------------------------- self-test

func unhex(s string) []byte {
	b, err := hex.DecodeString(s)
	if err != nil {
		panic(err)
	}
	return b
}

// SelfTest checks the reference on published vectors: RFC 4493 §4 (sub-keys and the four
// examples), SP 800-38B Appendix D examples for AES-192, AES-256 and three-key TDEA (empty
// message), RFC 6229 (key 0102030405 at offsets 0, 240, 256, 496, 512; the 56- and 128-bit
// keys at offset 0), and two published Group Policy cpassword values.
func SelfTest() error {
	key := unhex("2b7e151628aed2a6abf7158809cf4f3c")
	c, _ := aes.NewCipher(key)
	k1, k2 := SubkeysA(c)
	if hex.EncodeToString(k1) != "fbeed618357133667c85e08f7236a8de" || hex.EncodeToString(k2) != "f7ddac306ae266ccf90bc11ee46d513b" {
		return fmt.Errorf("refcmac: RFC 4493 subkeys: got K1=%x K2=%x", k1, k2)
	}
	msg := unhex("6bc1bee22e409f96e93d7e117393172aae2d8a571e03ac9c9eb76fac45af8e5130c81c46a35ce411e5fbc1191a0a52eff69f2445df4f9b17ad2b417be66c3710")
	for _, v := range []struct {
		n int
		t string
	}{{0, "bb1d6929e95937287fa37d129b756746"}, {16, "070a16b46b4d4144f79bdd9dd04a287c"}, {40, "dfa66747de9ae63030ca32611497c827"}, {64, "51f0bebf7e3b9d92fc49741779363cfe"}} {
		if g := SumA(c, msg[:v.n]); hex.EncodeToString(g) != v.t {
			return fmt.Errorf("refcmac: RFC 4493 example len %d: A got %x want %s", v.n, g, v.t)
		}
		if g := SumB(c, msg[:v.n]); hex.EncodeToString(g) != v.t {
			return fmt.Errorf("refcmac: RFC 4493 example len %d: B got %x want %s", v.n, g, v.t)
		}
	}
	c192, _ := aes.NewCipher(unhex("8e73b0f7da0e6452c810f32b809079e562f8ead2522c6b7b"))
	if g := Sum(c192, nil); hex.EncodeToString(g) != "d17ddf46adaacde531cac483de7a9367" {
		return fmt.Errorf("refcmac: SP 800-38B AES-192 empty: got %x", g)
	}
	c256, _ := aes.NewCipher(unhex("603deb1015ca71be2b73aef0857d77811f352c073b6108d72d9810a30914dff4"))
	if g := Sum(c256, nil); hex.EncodeToString(g) != "028962f61b7bf89efc6b551f4667d983" {
		return fmt.Errorf("refcmac: SP 800-38B AES-256 empty: got %x", g)
	}
	if g := Sum(c256, msg); hex.EncodeToString(g) != "e1992190549f6ed5696a2c056c315410" {
		return fmt.Errorf("refcmac: SP 800-38B AES-256 len 64: got %x", g)
	}
	t3, _ := des.NewTripleDESCipher(unhex("8aa83bf8cbda10620bc1bf19fbb6cd58bc313d4a371ca8b5"))
	if g := Sum(t3, nil); hex.EncodeToString(g) != "b7a688e122ffaf95" {
		return fmt.Errorf("refcmac: SP 800-38B TDEA empty: got %x", g)
	}
	if g := Sum(t3, msg[:8]); hex.EncodeToString(g) != "8e8f293136283797" {
		return fmt.Errorf("refcmac: SP 800-38B TDEA len 8: got %x", g)
	}
	// A/B agreement on 64-bit blocks for every length up to 4 blocks + 1, several keys
	for s := 0; s < 24; s++ {
		kk := make([]byte, 8)
		for i := range kk {
			kk[i] = byte(17*s + 3*i + 1)
		}
		d, _ := des.NewCipher(kk)
		for n := 0; n <= 33; n++ {
			if !bytes.Equal(SumA(d, msg[:n]), SumB(d, msg[:n])) {
				return fmt.Errorf("refcmac: DES A/B disagree key %x len %d", kk, n)
			}
		}
	}
	// RC4
	for _, v := range []struct {
		key string
		off int
		ks  string
	}{
		{"0102030405", 0, "b2396305f03dc027ccc3524a0a1118a8"},
		{"0102030405", 240, "28cb1132c96ce286421dcaadb8b69eae"},
		{"0102030405", 256, "1cfcf62b03eddb641d77dfcf7f8d8c93"},
		{"0102030405", 496, "42b7d0cdd918a8a33dd51781c81f4041"},
		{"0102030405", 512, "6459844432a7da923cfb3eb4980661f6"},
		{"01020304050607", 0, "293f02d47f37c9b633f2af5285feb46b"},
		{"0102030405060708090a0b0c0d0e0f10", 0, "9ac7cc9a609d1ef7b2932899cde41b97"},
		{"833222772a", 0, "80ad97bdc973df8a2e879e92a497efda"},
	} {
		ks := RC4Keystream(unhex(v.key), v.off+16)
		if hex.EncodeToString(ks[v.off:]) != v.ks {
			return fmt.Errorf("refcmac: RFC 6229 key %s offset %d: got %x want %s", v.key, v.off, ks[v.off:], v.ks)
		}
	}
	// PKCS#7
	if _, ok := PKCS7Valid([]byte{1, 2, 2}); !ok {
		return fmt.Errorf("refcmac: PKCS7Valid rejects 010202")
	}
	if _, ok := PKCS7Valid([]byte{1, 2, 3}); ok {
		return fmt.Errorf("refcmac: PKCS7Valid accepts 010203")
	}
	if _, ok := PKCS7Valid([]byte{0}); ok {
		return fmt.Errorf("refcmac: PKCS7Valid accepts 00")
	}
	// GPP: widely published cpassword values
	for _, v := range []struct{ enc, pw string }{
		{"edBSHOwhZLTjt/QS9FeIcJ83mjWA98gw9guKOhJOdcqh+ZGMeXOsQbCpZ3xUjTLfCuNH8pG5aSVYdYw/NglVmQ", "GPPstillStandingStrong2k18"},
		{"j1Uyj3Vx8TY9LtLZil2uAuZkFQA/4latT76ZwgdHdhw", "Local*P4ssword!"},
	} {
		g, ok := GPPDecrypt(v.enc)
		if !ok || g != v.pw {
			return fmt.Errorf("refcmac: GPP published vector %q: got %q ok=%v want %q", v.enc, g, ok, v.pw)
		}
		e := GPPEncrypt(v.pw)
		for len(e) > 0 && e[len(e)-1] == '=' {
			e = e[:len(e)-1]
		}
		if e != v.enc {
			return fmt.Errorf("refcmac: GPP encrypt %q: got %q want %q", v.pw, e, v.enc)
		}
	}
	return nil
}
