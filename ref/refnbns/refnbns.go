// Package refnbns is an independent implementation of RFC 1001 §14.1 first-level
// (half-ASCII) NetBIOS name encoding and of the RFC 1002 §4.2 name-service packet format,
// used as the oracle of C10. Names on the wire are second-level encoded as RFC 1002
// §4.1 prescribes: the 32-octet first-level label and each scope label are written as
// <length><bytes>, the sequence ends with the zero-length root label; label sequences
// are read with the RFC 1035 reader of verif/ref/refdns (RFC 1002 §4.2.1 refers to
// RFC 883/1035 for exactly this), which also follows RR_NAME pointers such as C0 0C.
package refnbns

import (
	"bytes"
	"encoding/binary"
	"encoding/hex"
	"errors"
	"fmt"
	"strings"

	"verif/ref/refdns"
)

// Name is a 16-byte NetBIOS name with its scope labels.
type Name struct {
	Raw   [16]byte
	Scope []string
}

// Pad right-pads s with spaces to 16 bytes (RFC 1001 §14.1); s must have at most 16 bytes.
func Pad(s string) (out [16]byte) {
	for i := range out {
		out[i] = ' '
	}
	copy(out[:], s)
	return
}

// FirstLevel is the half-ASCII encoding: every byte becomes two letters 'A'+high nibble, 'A'+low nibble.
func FirstLevel(raw [16]byte) string {
	const alphabet = "ABCDEFGHIJKLMNOP"
	var sb strings.Builder
	for _, b := range raw {
		sb.WriteByte(alphabet[b/16])
		sb.WriteByte(alphabet[b%16])
	}
	return sb.String()
}

var ErrNotHalfASCII = errors.New("refnbns: first label is not 32 characters A..P")

// UnFirstLevel inverts FirstLevel.
func UnFirstLevel(s string) (raw [16]byte, err error) {
	if len(s) != 32 {
		return raw, ErrNotHalfASCII
	}
	for i := 0; i < 16; i++ {
		h, l := s[2*i], s[2*i+1]
		if h < 'A' || h > 'P' || l < 'A' || l > 'P' {
			return raw, ErrNotHalfASCII
		}
		raw[i] = (h-'A')*16 + (l - 'A')
	}
	return raw, nil
}

// WireName is the RFC 1002 §4.1 second-level encoding of the name.
func WireName(n Name) []byte {
	out := []byte{32}
	out = append(out, FirstLevel(n.Raw)...)
	for _, l := range n.Scope {
		out = append(out, byte(len(l)))
		out = append(out, l...)
	}
	return append(out, 0)
}

type Question struct {
	Name        Name
	Type, Class uint16
}

type RR struct {
	Name        Name
	Type, Class uint16
	TTL         uint32
	RData       []byte
}

type Packet struct {
	ID, Flags      uint16
	QD, AN, NS, AR uint16
	Q              []Question
	An, Ns, Ar     []RR
	Trailing       int
}

func readName(b []byte, off int) (Name, int, error) {
	labels, next, _, err := refdns.ReadName(b, off)
	if err != nil {
		return Name{}, off, err
	}
	if len(labels) == 0 {
		return Name{}, off, ErrNotHalfASCII
	}
	raw, err := UnFirstLevel(labels[0])
	if err != nil {
		return Name{}, off, fmt.Errorf("%w (first label %q)", err, labels[0])
	}
	return Name{Raw: raw, Scope: labels[1:]}, next, nil
}

// Parse reads an RFC 1002 §4.2 packet; on error it returns what was read, the failing
// section (0 header, 1 questions, 2 answers, 3 authority, 4 additional) and the error.
func Parse(b []byte) (p *Packet, failedSection int, err error) {
	p = &Packet{}
	if len(b) < 12 {
		return p, 0, errors.New("refnbns: short header")
	}
	p.ID = binary.BigEndian.Uint16(b[0:])
	p.Flags = binary.BigEndian.Uint16(b[2:])
	p.QD = binary.BigEndian.Uint16(b[4:])
	p.AN = binary.BigEndian.Uint16(b[6:])
	p.NS = binary.BigEndian.Uint16(b[8:])
	p.AR = binary.BigEndian.Uint16(b[10:])
	off := 12
	for i := 0; i < int(p.QD); i++ {
		n, nx, e := readName(b, off)
		if e != nil {
			return p, 1, fmt.Errorf("question %d name at offset %d: %w", i, off, e)
		}
		if nx+4 > len(b) {
			return p, 1, fmt.Errorf("question %d truncated", i)
		}
		p.Q = append(p.Q, Question{n, binary.BigEndian.Uint16(b[nx:]), binary.BigEndian.Uint16(b[nx+2:])})
		off = nx + 4
	}
	for s, sec := range []struct {
		n   uint16
		dst *[]RR
	}{{p.AN, &p.An}, {p.NS, &p.Ns}, {p.AR, &p.Ar}} {
		for i := 0; i < int(sec.n); i++ {
			n, nx, e := readName(b, off)
			if e != nil {
				return p, 2 + s, fmt.Errorf("record %d name at offset %d: %w", i, off, e)
			}
			if nx+10 > len(b) {
				return p, 2 + s, fmt.Errorf("record %d truncated", i)
			}
			rr := RR{Name: n, Type: binary.BigEndian.Uint16(b[nx:]), Class: binary.BigEndian.Uint16(b[nx+2:]), TTL: binary.BigEndian.Uint32(b[nx+4:])}
			rdl := int(binary.BigEndian.Uint16(b[nx+8:]))
			if nx+10+rdl > len(b) {
				return p, 2 + s, fmt.Errorf("record %d rdata truncated", i)
			}
			rr.RData = append([]byte{}, b[nx+10:nx+10+rdl]...)
			*sec.dst = append(*sec.dst, rr)
			off = nx + 10 + rdl
		}
	}
	p.Trailing = len(b) - off
	return p, -1, nil
}

// SelfTest: RFC 1001 §14.1 example ("FRED" in scope NETBIOS.COM), the wildcard name of
// the NBSTAT query every nbtstat/nmblookup sends, and that query's published bytes.
func SelfTest() error {
	if err := refdns.SelfTest(); err != nil {
		return err
	}
	const fred = "EGFCEFEECACACACACACACACACACACACA"
	if got := FirstLevel(Pad("FRED")); got != fred {
		return fmt.Errorf("refnbns self-test: FirstLevel(FRED) = %s", got)
	}
	w := WireName(Name{Raw: Pad("FRED"), Scope: []string{"NETBIOS", "COM"}})
	want := append([]byte{0x20}, fred...)
	want = append(want, "\x07NETBIOS\x03COM\x00"...)
	if !bytes.Equal(w, want) {
		return fmt.Errorf("refnbns self-test: RFC 1001 14.1 wire form = %x", w)
	}
	n, next, err := readName(w, 0)
	if err != nil || n.Raw != Pad("FRED") || strings.Join(n.Scope, ".") != "NETBIOS.COM" || next != len(w) {
		return fmt.Errorf("refnbns self-test: reading the RFC 1001 example back: %+v %d %v", n, next, err)
	}
	var star [16]byte
	star[0] = '*'
	if got := FirstLevel(star); got != "CKAAAAAAAAAAAAAAAAAAAAAAAAAAAAAA" {
		return fmt.Errorf("refnbns self-test: wildcard name = %s", got)
	}
	// NBSTAT query as sent by nbtstat -A / nmblookup -A
	q, _ := hex.DecodeString("80f00010000100000000000020434b4141414141414141414141414141414141414141414141414141414141410000210001")
	p, _, err := Parse(q)
	if err != nil || p.ID != 0x80f0 || p.Flags != 0x0010 || len(p.Q) != 1 || p.Q[0].Name.Raw != star || len(p.Q[0].Name.Scope) != 0 || p.Q[0].Type != 0x21 || p.Q[0].Class != 1 || p.Trailing != 0 {
		return fmt.Errorf("refnbns self-test: NBSTAT query: %+v %v", p, err)
	}
	// a registration request: question + additional record whose RR_NAME is the pointer C0 0C (RFC 1002 §4.2.2)
	reg := append([]byte{}, q[:12]...)
	binary.BigEndian.PutUint16(reg[2:], 0x2910)
	binary.BigEndian.PutUint16(reg[10:], 1)
	reg = append(reg, WireName(Name{Raw: Pad("FRED")})...)
	reg = append(reg, 0, 0x20, 0, 1)
	reg = append(reg, 0xC0, 0x0C, 0, 0x20, 0, 1, 0, 0x04, 0x93, 0xE0, 0, 6, 0, 0, 10, 0, 0, 1)
	p, _, err = Parse(reg)
	if err != nil || len(p.Ar) != 1 || p.Ar[0].Name.Raw != Pad("FRED") || p.Ar[0].TTL != 300000 || !bytes.Equal(p.Ar[0].RData, []byte{0, 0, 10, 0, 0, 1}) {
		return fmt.Errorf("refnbns self-test: registration request: %+v %v", p, err)
	}
	if _, err := UnFirstLevel("EGFCEFEECACACACACACACACACACACACQ"); err == nil {
		return errors.New("refnbns self-test: 'Q' accepted as half-ASCII")
	}
	return nil
}
