// Package refsmbtypes is an independent codec for the SMB1 wire data types of
// MS-CIFS 2.2.1 (common data types), 2.2.2.5 (data buffer format codes), 2.2.3
// (parameter / data blocks, AndX header words), and the NTLM VERSION structure of
// MS-NLMP 2.2.2.10. It is written from the specification text only: it imports
// nothing from the library under test and nothing from encoding/binary, and every
// decoder reports the number of bytes the structure occupies so that "consumed ==
// own length, whatever follows" can be compared.
//
// All multi-byte integers are little-endian (MS-CIFS 2.2: "multi-byte fields in an
// SMB message MUST be transmitted in little-endian byte order").
package refsmbtypes

import (
	"bytes"
	"errors"
	"fmt"
)

var ErrShort = errors.New("refsmbtypes: buffer too short")

// ---------------------------------------------------------------- little-endian primitives

func PutU16(v uint16) []byte { return []byte{byte(v), byte(v >> 8)} }
func PutU32(v uint32) []byte { return []byte{byte(v), byte(v >> 8), byte(v >> 16), byte(v >> 24)} }
func PutU64(v uint64) []byte {
	return append(PutU32(uint32(v)), PutU32(uint32(v>>32))...)
}
func U16(b []byte) uint16 { return uint16(b[0]) | uint16(b[1])<<8 }
func U32(b []byte) uint32 {
	return uint32(b[0]) | uint32(b[1])<<8 | uint32(b[2])<<16 | uint32(b[3])<<24
}
func U64(b []byte) uint64 { return uint64(U32(b)) | uint64(U32(b[4:]))<<32 }

// ---------------------------------------------------------------- 2.2.2.5 data buffer format codes

// Buffer format codes of MS-CIFS 2.2.2.5.
const (
	FmtDataBuffer    = 0x01 // USHORT length, then the data
	FmtDialect       = 0x02 // null-terminated OEM string (SMB_COM_NEGOTIATE only)
	FmtPathname      = 0x03 // null-terminated string (a path)
	FmtSMBString     = 0x04 // null-terminated string
	FmtVariableBlock = 0x05 // USHORT length, then the block
)

// LengthPrefixed reports whether MS-CIFS gives the format a USHORT length (0x01, 0x05).
func LengthPrefixed(format byte) bool { return format == FmtDataBuffer || format == FmtVariableBlock }

// EncBuffer encodes one formatted buffer as MS-CIFS 2.2.2.5 lays it out.
func EncBuffer(format byte, payload []byte) ([]byte, error) {
	switch format {
	case FmtDataBuffer, FmtVariableBlock:
		if len(payload) > 0xFFFF {
			return nil, fmt.Errorf("refsmbtypes: %d bytes do not fit a USHORT length", len(payload))
		}
		out := append([]byte{format}, PutU16(uint16(len(payload)))...)
		return append(out, payload...), nil
	case FmtDialect, FmtPathname, FmtSMBString:
		if bytes.IndexByte(payload, 0) >= 0 {
			return nil, fmt.Errorf("refsmbtypes: embedded NUL in a null-terminated format")
		}
		out := append([]byte{format}, payload...)
		return append(out, 0), nil
	}
	return nil, fmt.Errorf("refsmbtypes: unknown buffer format 0x%02x", format)
}

// DecBuffer decodes one formatted buffer and returns the bytes it occupies.
func DecBuffer(b []byte) (format byte, payload []byte, n int, err error) {
	if len(b) < 1 {
		return 0, nil, 0, ErrShort
	}
	format = b[0]
	switch format {
	case FmtDataBuffer, FmtVariableBlock:
		if len(b) < 3 {
			return format, nil, 0, ErrShort
		}
		l := int(U16(b[1:3]))
		if len(b) < 3+l {
			return format, nil, 0, ErrShort
		}
		return format, append([]byte{}, b[3:3+l]...), 3 + l, nil
	case FmtDialect, FmtPathname, FmtSMBString:
		i := bytes.IndexByte(b[1:], 0)
		if i < 0 {
			return format, nil, 0, ErrShort
		}
		return format, append([]byte{}, b[1:1+i]...), 1 + i + 1, nil
	}
	return format, nil, 0, fmt.Errorf("refsmbtypes: unknown buffer format 0x%02x", format)
}

// ---------------------------------------------------------------- 2.2.1.4.1 SMB_DATE, 2.2.1.4.2 SMB_TIME

// Date is the field view of SMB_DATE: YEAR 0xFE00 (add 1980), MONTH 0x01E0, DAY 0x001F.
type Date struct {
	Year  int // 1980..2107
	Month int // 0..15 as representable (1..12 meaningful)
	Day   int // 0..31 as representable (1..31 meaningful)
}

// InDomain reports whether the fields fit the packed word.
func (d Date) InDomain() bool {
	return d.Year >= 1980 && d.Year <= 2107 && d.Month >= 0 && d.Month <= 15 && d.Day >= 0 && d.Day <= 31
}

func DateWord(d Date) uint16 {
	return uint16(d.Year-1980)*512 + uint16(d.Month)*32 + uint16(d.Day)
}

func DateFromWord(w uint16) Date {
	return Date{Year: 1980 + int(w/512), Month: int(w / 32 % 16), Day: int(w % 32)}
}

// Time is the field view of SMB_TIME: HOUR 0xF800, MINUTES 0x07E0, SECONDS 0x001F (2-second units).
type Time struct{ Hour, Minute, Sec2 int }

func TimeWord(t Time) uint16     { return uint16(t.Hour)*2048 + uint16(t.Minute)*32 + uint16(t.Sec2) }
func TimeFromWord(w uint16) Time { return Time{int(w / 2048), int(w / 32 % 64), int(w % 32)} }

// ---------------------------------------------------------------- 2.2.1.4.3 / MS-DTYP 2.3.3 FILETIME

// EncFiletime: dwLowDateTime then dwHighDateTime, each a little-endian DWORD.
func EncFiletime(ticks uint64) []byte { return PutU64(ticks) }

func DecFiletime(b []byte) (ticks uint64, n int, err error) {
	if len(b) < 8 {
		return 0, 0, ErrShort
	}
	return U64(b), 8, nil
}

// ---------------------------------------------------------------- 2.2.4.32.1 LOCKING_ANDX_RANGE32 / RANGE64

type Range32 struct {
	PID            uint16
	Offset, Length uint32
}

func EncRange32(r Range32) []byte {
	out := PutU16(r.PID)
	out = append(out, PutU32(r.Offset)...)
	return append(out, PutU32(r.Length)...)
}

func DecRange32(b []byte) (Range32, int, error) {
	if len(b) < 10 {
		return Range32{}, 0, ErrShort
	}
	return Range32{U16(b), U32(b[2:]), U32(b[6:])}, 10, nil
}

type Range64 struct {
	PID, Pad                                  uint16
	OffsetHigh, OffsetLow, LengthHigh, LenLow uint32
}

func EncRange64(r Range64) []byte {
	out := PutU16(r.PID)
	out = append(out, PutU16(r.Pad)...)
	out = append(out, PutU32(r.OffsetHigh)...)
	out = append(out, PutU32(r.OffsetLow)...)
	out = append(out, PutU32(r.LengthHigh)...)
	return append(out, PutU32(r.LenLow)...)
}

func DecRange64(b []byte) (Range64, int, error) {
	if len(b) < 20 {
		return Range64{}, 0, ErrShort
	}
	return Range64{U16(b), U16(b[2:]), U32(b[4:]), U32(b[8:]), U32(b[12:]), U32(b[16:])}, 20, nil
}

// ---------------------------------------------------------------- 2.2.1.3 SMB_NMPIPE_STATUS

// PipeStatus is the 16-bit status: ICount 0x00FF, ReadMode 0x0300, NamedPipeType 0x0C00,
// Endpoint 0x4000, Nonblocking 0x8000. On the wire (little-endian) the first byte is ICount
// and the second byte carries the flag bits shifted down by 8.
type PipeStatus struct{ ICount, Flags byte }

func PipeStatusWord(p PipeStatus) uint16     { return uint16(p.Flags)*256 + uint16(p.ICount) }
func PipeStatusFromWord(w uint16) PipeStatus { return PipeStatus{byte(w % 256), byte(w / 256)} }

// ---------------------------------------------------------------- 2.2.4.58 SMB_Resume_Key

// ResumeKey is the 21-byte key: Reserved(1) ServerState(16) ClientState(4).
type ResumeKey struct {
	Reserved    byte
	ServerState [16]byte
	ClientState [4]byte
}

func EncResumeKeyRaw(k ResumeKey) []byte {
	out := []byte{k.Reserved}
	out = append(out, k.ServerState[:]...)
	return append(out, k.ClientState[:]...)
}

func DecResumeKeyRaw(b []byte) (ResumeKey, int, error) {
	var k ResumeKey
	if len(b) < 21 {
		return k, 0, ErrShort
	}
	k.Reserved = b[0]
	copy(k.ServerState[:], b[1:17])
	copy(k.ClientState[:], b[17:21])
	return k, 21, nil
}

// EncResumeKeyBlock is the key as SMB_COM_SEARCH carries it in a request: BufferFormat2 0x05,
// ResumeKeyLength 21, ResumeKey.
func EncResumeKeyBlock(k ResumeKey) []byte {
	out, _ := EncBuffer(FmtVariableBlock, EncResumeKeyRaw(k))
	return out
}

func DecResumeKeyBlock(b []byte) (ResumeKey, int, error) {
	f, p, n, err := DecBuffer(b)
	if err != nil {
		return ResumeKey{}, 0, err
	}
	if f != FmtVariableBlock || len(p) != 21 {
		return ResumeKey{}, 0, fmt.Errorf("refsmbtypes: not a 21-byte variable block")
	}
	k, _, _ := DecResumeKeyRaw(p)
	return k, n, nil
}

// ---------------------------------------------------------------- 2.2.4.58 SMB_Directory_Information

// DirInfo is one 43-byte SMB_COM_SEARCH directory entry:
// ResumeKey(21) FileAttributes(1) LastWriteTime(2) LastWriteDate(2) FileSize(4) FileName(13).
type DirInfo struct {
	Key        ResumeKey
	Attributes byte
	Time       uint16
	Date       uint16
	Size       uint32
	Name       []byte // up to 12 bytes, 8.3
}

// EncDirInfo: the name is left-justified and space-padded to 12 bytes, then NUL (13 bytes).
func EncDirInfo(d DirInfo) ([]byte, error) {
	if len(d.Name) > 12 {
		return nil, fmt.Errorf("refsmbtypes: 8.3 name longer than 12 bytes")
	}
	out := EncResumeKeyRaw(d.Key)
	out = append(out, d.Attributes)
	out = append(out, PutU16(d.Time)...)
	out = append(out, PutU16(d.Date)...)
	out = append(out, PutU32(d.Size)...)
	name := append([]byte{}, d.Name...)
	for len(name) < 12 {
		name = append(name, ' ')
	}
	return append(append(out, name...), 0), nil
}

func DecDirInfo(b []byte) (DirInfo, int, error) {
	var d DirInfo
	if len(b) < 43 {
		return d, 0, ErrShort
	}
	d.Key, _, _ = DecResumeKeyRaw(b)
	d.Attributes = b[21]
	d.Time = U16(b[22:])
	d.Date = U16(b[24:])
	d.Size = U32(b[26:])
	name := b[30:43]
	if i := bytes.IndexByte(name, 0); i >= 0 {
		name = name[:i]
	}
	d.Name = append([]byte{}, name...)
	return d, 43, nil
}

// TrimPad removes the trailing space padding of an 8.3 name ("equal modulo space padding").
func TrimPad(name []byte) []byte { return bytes.TrimRight(name, " ") }

// ---------------------------------------------------------------- 2.2.1.2.4 SMB_FILE_ATTRIBUTES (USHORT)

func EncFileAttributes(a uint16) []byte { return PutU16(a) }
func DecFileAttributes(b []byte) (uint16, int, error) {
	if len(b) < 2 {
		return 0, 0, ErrShort
	}
	return U16(b), 2, nil
}

// ---------------------------------------------------------------- AndX header words (2.2.3.4 / every *_ANDX command)

// AndX: AndXCommand(1) AndXReserved(1) AndXOffset(2, little-endian).
type AndX struct {
	Command, Reserved byte
	Offset            uint16
}

func EncAndX(a AndX) []byte { return append([]byte{a.Command, a.Reserved}, PutU16(a.Offset)...) }
func DecAndX(b []byte) (AndX, int, error) {
	if len(b) < 4 {
		return AndX{}, 0, ErrShort
	}
	return AndX{b[0], b[1], U16(b[2:])}, 4, nil
}

// ---------------------------------------------------------------- 2.2.3.2 parameter block, 2.2.3.3 data block

// EncParameters: WordCount(1) then WordCount little-endian USHORTs.
func EncParameters(words []uint16) ([]byte, error) {
	if len(words) > 255 {
		return nil, fmt.Errorf("refsmbtypes: %d words do not fit WordCount", len(words))
	}
	out := []byte{byte(len(words))}
	for _, w := range words {
		out = append(out, PutU16(w)...)
	}
	return out, nil
}

func DecParameters(b []byte) (words []uint16, n int, err error) {
	if len(b) < 1 {
		return nil, 0, ErrShort
	}
	wc := int(b[0])
	if len(b) < 1+2*wc {
		return nil, 0, ErrShort
	}
	words = make([]uint16, wc)
	for i := range words {
		words[i] = U16(b[1+2*i:])
	}
	return words, 1 + 2*wc, nil
}

// EncData: ByteCount(2, little-endian) then ByteCount bytes.
func EncData(p []byte) ([]byte, error) {
	if len(p) > 0xFFFF {
		return nil, fmt.Errorf("refsmbtypes: %d bytes do not fit ByteCount", len(p))
	}
	return append(PutU16(uint16(len(p))), p...), nil
}

func DecData(b []byte) (p []byte, n int, err error) {
	if len(b) < 2 {
		return nil, 0, ErrShort
	}
	bc := int(U16(b))
	if len(b) < 2+bc {
		return nil, 0, ErrShort
	}
	return append([]byte{}, b[2:2+bc]...), 2 + bc, nil
}

// ---------------------------------------------------------------- MS-NLMP 2.2.2.10 VERSION

type Version struct {
	Major, Minor byte
	Build        uint16
	Reserved     [3]byte
	Revision     byte
}

func EncVersion(v Version) []byte {
	out := []byte{v.Major, v.Minor}
	out = append(out, PutU16(v.Build)...)
	out = append(out, v.Reserved[:]...)
	return append(out, v.Revision)
}

func DecVersion(b []byte) (Version, int, error) {
	if len(b) < 8 {
		return Version{}, 0, ErrShort
	}
	return Version{b[0], b[1], U16(b[2:]), [3]byte{b[4], b[5], b[6]}, b[7]}, 8, nil
}

// ---------------------------------------------------------------- self-test

func unhex(s string) []byte {
	var out []byte
	var nib []byte
	for i := 0; i < len(s); i++ {
		c := s[i]
		switch {
		case c >= '0' && c <= '9':
			nib = append(nib, c-'0')
		case c >= 'a' && c <= 'f':
			nib = append(nib, c-'a'+10)
		case c >= 'A' && c <= 'F':
			nib = append(nib, c-'A'+10)
		}
	}
	for i := 0; i+1 < len(nib); i += 2 {
		out = append(out, nib[i]<<4|nib[i+1])
	}
	return out
}

// SelfTest checks the codec on vectors that can be verified offline: the NTLM VERSION of
// MS-NLMP 4.2.1 (Windows XP 5.1.2600, revision 15); the FILETIME of the Unix epoch
// (116444736000000000 = 0x019DB1DED53E8000, MS-DTYP / KB 167296); the FAT/SMB date and time
// words of well-known instants (1980-01-01 = 0x0021; 2021-12-03 = 0x5383 and the lock ranges,
// as used by the repository's own tests; 23:59:58 = 0xBF7D); the "NT LM 0.12" dialect entry
// of the SMB_COM_NEGOTIATE example in MS-CIFS 4.1; and structural identities (decode∘encode
// on every type, consumed length independent of a suffix).
func SelfTest() error {
	fail := func(f string, a ...any) error { return fmt.Errorf("refsmbtypes self-test: "+f, a...) }
	// VERSION, MS-NLMP 4.2.1
	v := Version{Major: 5, Minor: 1, Build: 2600, Revision: 15}
	if got := EncVersion(v); !bytes.Equal(got, unhex("0501280a0000000f")) {
		return fail("VERSION 5.1.2600/15 = %x", got)
	}
	if d, n, err := DecVersion(append(unhex("0501280a0000000f"), 0xff)); err != nil || n != 8 || d != v {
		return fail("DecVersion %v %d %v", d, n, err)
	}
	// FILETIME of 1970-01-01T00:00:00Z
	if got := EncFiletime(116444736000000000); !bytes.Equal(got, unhex("00803ed5deb19d01")) {
		return fail("FILETIME epoch = %x", got)
	}
	if t, n, err := DecFiletime(unhex("00803ed5deb19d01 41 00")); err != nil || n != 8 || t != 116444736000000000 {
		return fail("DecFiletime %d %d %v", t, n, err)
	}
	// dates / times
	if w := DateWord(Date{1980, 1, 1}); w != 0x0021 {
		return fail("date 1980-01-01 = %04x", w)
	}
	if w := DateWord(Date{2021, 12, 3}); w != 0x5383 {
		return fail("date 2021-12-03 = %04x", w)
	}
	if w := DateWord(Date{2107, 15, 31}); w != 0xFFFF {
		return fail("date max = %04x", w)
	}
	if d := DateFromWord(0x5383); d != (Date{2021, 12, 3}) {
		return fail("DateFromWord(5383) = %v", d)
	}
	if w := TimeWord(Time{23, 59, 29}); w != 0xBF7D {
		return fail("time 23:59:58 = %04x", w)
	}
	if t := TimeFromWord(0xBF7D); t != (Time{23, 59, 29}) {
		return fail("TimeFromWord = %v", t)
	}
	for w := 0; w < 65536; w++ {
		if DateWord(DateFromWord(uint16(w))) != uint16(w) || !DateFromWord(uint16(w)).InDomain() {
			return fail("date word %04x does not round-trip", w)
		}
		if PipeStatusWord(PipeStatusFromWord(uint16(w))) != uint16(w) {
			return fail("pipe status word %04x does not round-trip", w)
		}
	}
	// pipe status: ICount 5, message read mode (0x0100), nonblocking (0x8000) -> word 0x8105 -> bytes 05 81
	if p := PipeStatusFromWord(0x8105); p != (PipeStatus{5, 0x81}) || !bytes.Equal(PutU16(0x8105), []byte{5, 0x81}) {
		return fail("pipe status 0x8105 = %v", p)
	}
	// dialect entry of the MS-CIFS negotiate example
	want := append([]byte{0x02}, append([]byte("NT LM 0.12"), 0)...)
	if got, err := EncBuffer(FmtDialect, []byte("NT LM 0.12")); err != nil || !bytes.Equal(got, want) {
		return fail("dialect = %x %v", got, err)
	}
	for _, f := range []byte{1, 2, 3, 4, 5} {
		for _, p := range [][]byte{{}, []byte("A"), []byte("\\DIR\\FILE.TXT"), bytes.Repeat([]byte{0xff}, 65535)} {
			e, err := EncBuffer(f, p)
			if err != nil {
				return fail("EncBuffer(%d): %v", f, err)
			}
			wantLen := 1 + len(p) + 1
			if LengthPrefixed(f) {
				wantLen = 3 + len(p)
			}
			if len(e) != wantLen {
				return fail("EncBuffer(%d,%d bytes) has %d bytes", f, len(p), len(e))
			}
			for _, suf := range [][]byte{nil, {0}, {0xff}, {0x41, 0}} {
				gf, gp, n, err := DecBuffer(append(append([]byte{}, e...), suf...))
				if err != nil || gf != f || n != len(e) || !bytes.Equal(gp, p) {
					return fail("DecBuffer(fmt %d, %d bytes, suffix %x) = fmt %d, %d bytes, n=%d, %v", f, len(p), suf, gf, len(gp), n, err)
				}
			}
		}
	}
	if _, err := EncBuffer(4, []byte{'a', 0, 'b'}); err == nil {
		return fail("embedded NUL accepted")
	}
	if got, _ := EncBuffer(5, []byte{1, 2}); !bytes.Equal(got, []byte{5, 2, 0, 1, 2}) {
		return fail("variable block = %x", got)
	}
	// lock ranges (vectors also used by the repository's tests: PID 0x1234, offset 0x12345678 ...)
	r32 := Range32{0x1234, 0x12345678, 0x9ABCDEF0}
	if got := EncRange32(r32); !bytes.Equal(got, unhex("3412 78563412 f0debc9a")) {
		return fail("RANGE32 = %x", got)
	}
	if d, n, err := DecRange32(append(EncRange32(r32), 0)); err != nil || n != 10 || d != r32 {
		return fail("DecRange32")
	}
	r64 := Range64{0x1234, 0x5678, 0x11223344, 0x55667788, 0x99AABBCC, 0xDDEEFF00}
	if got := EncRange64(r64); !bytes.Equal(got, unhex("3412 7856 44332211 88776655 ccbbaa99 00ffeedd")) {
		return fail("RANGE64 = %x", got)
	}
	if d, n, err := DecRange64(append(EncRange64(r64), 0xff)); err != nil || n != 20 || d != r64 {
		return fail("DecRange64")
	}
	// resume key / directory entry sizes fixed by MS-CIFS 2.2.4.58: 21 and 43 bytes
	var k ResumeKey
	k.Reserved = 0x80
	for i := range k.ServerState {
		k.ServerState[i] = byte(i + 1)
	}
	copy(k.ClientState[:], []byte{0xc1, 0xc2, 0xc3, 0xc4})
	raw := EncResumeKeyRaw(k)
	if len(raw) != 21 || raw[0] != 0x80 || raw[1] != 1 || raw[16] != 16 || raw[17] != 0xc1 || raw[20] != 0xc4 {
		return fail("resume key raw = %x", raw)
	}
	blk := EncResumeKeyBlock(k)
	if len(blk) != 24 || blk[0] != 5 || blk[1] != 21 || blk[2] != 0 {
		return fail("resume key block = %x", blk)
	}
	if d, n, err := DecResumeKeyBlock(append(blk, 0, 0, 0)); err != nil || n != 24 || d != k {
		return fail("DecResumeKeyBlock")
	}
	di := DirInfo{Key: k, Attributes: 0x20, Time: 0xBF7D, Date: 0x5383, Size: 1024, Name: []byte("TEST.TXT")}
	e, err := EncDirInfo(di)
	if err != nil || len(e) != 43 || !bytes.Equal(e[30:], append([]byte("TEST.TXT    "), 0)) || !bytes.Equal(e[21:30], unhex("20 7dbf 8353 00040000")) {
		return fail("dir info = %x %v", e, err)
	}
	if d, n, err := DecDirInfo(append(e, 0x41, 0)); err != nil || n != 43 || d.Key != k || d.Size != 1024 || d.Time != 0xBF7D || d.Date != 0x5383 || !bytes.Equal(TrimPad(d.Name), []byte("TEST.TXT")) {
		return fail("DecDirInfo")
	}
	// attributes, AndX, parameter and data blocks
	if !bytes.Equal(EncFileAttributes(0x0037), []byte{0x37, 0x00}) {
		return fail("attributes")
	}
	// AndX words of the MS-CIFS session-setup example: AndXCommand 0x75, reserved 0, offset 0x0084? (structure only)
	if got := EncAndX(AndX{0x75, 0, 0x0084}); !bytes.Equal(got, []byte{0x75, 0x00, 0x84, 0x00}) {
		return fail("AndX = %x", got)
	}
	if a, n, err := DecAndX([]byte{0xff, 0, 0x34, 0x12, 9}); err != nil || n != 4 || a != (AndX{0xff, 0, 0x1234}) {
		return fail("DecAndX")
	}
	if got, _ := EncParameters([]uint16{0x1234, 0x00ff}); !bytes.Equal(got, []byte{2, 0x34, 0x12, 0xff, 0x00}) {
		return fail("parameters = %x", got)
	}
	if w, n, err := DecParameters([]byte{2, 0x34, 0x12, 0xff, 0x00, 0x41}); err != nil || n != 5 || len(w) != 2 || w[0] != 0x1234 || w[1] != 0x00ff {
		return fail("DecParameters")
	}
	if got, _ := EncData([]byte{9, 8, 7}); !bytes.Equal(got, []byte{3, 0, 9, 8, 7}) {
		return fail("data = %x", got)
	}
	if p, n, err := DecData([]byte{3, 0, 9, 8, 7, 0, 0, 0}); err != nil || n != 5 || !bytes.Equal(p, []byte{9, 8, 7}) {
		return fail("DecData")
	}
	return nil
}
