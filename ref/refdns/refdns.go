// Package refdns is an independent RFC 1035 §4.1 message codec (parser and encoder with
// §4.1.4 name compression) used as the oracle of C09. It shares no code with the library
// under test nor with golang.org/x/net/dns/dnsmessage; names are label lists (raw bytes),
// never dotted strings, so no escaping convention is involved.
//
// Strictness of the parser: label length octets 1..63 only (01xxxxxx and 10xxxxxx are
// reserved → error), names of at most 255 octets on the wire after expansion, compression
// pointers must point strictly backwards relative to the pointer's own offset, and a
// step bound makes loops (a backward pointer into the name being read) an error.
package refdns

import (
	"bytes"
	"encoding/binary"
	"encoding/hex"
	"errors"
	"fmt"
	"strings"
)

type Question struct {
	Name  []string // labels, raw bytes; nil/empty = root
	Type  uint16
	Class uint16
}

type RR struct {
	Name  []string
	Type  uint16
	Class uint16
	TTL   uint32
	RData []byte
}

type Msg struct {
	ID, Flags      uint16
	QD, AN, NS, AR uint16 // header counts as read from the wire (Encode derives them from the slices)
	Q              []Question
	An, Ns, Ar     []RR
	Trailing       int // bytes after the last record (parser only)
}

// Error kinds of the name reader.
var (
	ErrTruncated     = errors.New("refdns: truncated")
	ErrTruncatedPtr  = errors.New("refdns: compression pointer is missing its second octet")
	ErrReservedLabel = errors.New("refdns: reserved label type (01/10)")
	ErrNotBackward   = errors.New("refdns: compression pointer does not point strictly backwards")
	ErrLoop          = errors.New("refdns: compression loop")
	ErrNameTooLong   = errors.New("refdns: name longer than 255 octets")
	ErrOffset        = errors.New("refdns: offset outside the message")
)

// Hop is one compression pointer followed while reading a name.
type Hop struct{ At, Target int }

// ReadName reads the name at off. next is the offset just after the name in the record
// being read (after the first pointer if there is one). hops lists the pointers followed,
// including the offending one when err is ErrNotBackward.
func ReadName(b []byte, off int) (labels []string, next int, hops []Hop, err error) {
	if off < 0 || off >= len(b) {
		return nil, off, nil, ErrOffset
	}
	cur := off
	next = -1
	wire := 1 // the terminating root octet
	for steps := 0; ; steps++ {
		if steps > 4*len(b)+16 {
			return nil, off, hops, ErrLoop
		}
		if cur >= len(b) {
			return nil, off, hops, ErrTruncated
		}
		c := b[cur]
		switch c & 0xC0 {
		case 0x00:
			if c == 0 {
				if next < 0 {
					next = cur + 1
				}
				return labels, next, hops, nil
			}
			if cur+1+int(c) > len(b) {
				return nil, off, hops, ErrTruncated
			}
			wire += 1 + int(c)
			if wire > 255 {
				return nil, off, hops, ErrNameTooLong
			}
			labels = append(labels, string(b[cur+1:cur+1+int(c)]))
			cur += 1 + int(c)
		case 0xC0:
			if cur+1 >= len(b) {
				return nil, off, hops, ErrTruncatedPtr
			}
			t := int(c&0x3F)<<8 | int(b[cur+1])
			hops = append(hops, Hop{cur, t})
			if t >= cur {
				return nil, off, hops, ErrNotBackward
			}
			if next < 0 {
				next = cur + 2
			}
			// a pointer chain in which every target is strictly below the previous pointer can
			// still revisit this pointer (target inside the name being read): the step bound
			// above turns that into ErrLoop.
			cur = t
		default:
			return nil, off, hops, ErrReservedLabel
		}
	}
}

// Parse reads a whole message. On error the sections read so far are returned together
// with the error and the index (0=header,1=questions,2=answers,3=authority,4=additional)
// of the section in which reading failed.
func Parse(b []byte) (m *Msg, failedSection int, err error) {
	m = &Msg{}
	if len(b) < 12 {
		return m, 0, ErrTruncated
	}
	m.ID = binary.BigEndian.Uint16(b[0:])
	m.Flags = binary.BigEndian.Uint16(b[2:])
	m.QD = binary.BigEndian.Uint16(b[4:])
	m.AN = binary.BigEndian.Uint16(b[6:])
	m.NS = binary.BigEndian.Uint16(b[8:])
	m.AR = binary.BigEndian.Uint16(b[10:])
	off := 12
	for i := 0; i < int(m.QD); i++ {
		if off >= len(b) {
			return m, 1, ErrTruncated
		}
		n, nx, _, e := ReadName(b, off)
		if e != nil {
			return m, 1, e
		}
		if nx+4 > len(b) {
			return m, 1, ErrTruncated
		}
		m.Q = append(m.Q, Question{n, binary.BigEndian.Uint16(b[nx:]), binary.BigEndian.Uint16(b[nx+2:])})
		off = nx + 4
	}
	for s, sec := range []struct {
		n   uint16
		dst *[]RR
	}{{m.AN, &m.An}, {m.NS, &m.Ns}, {m.AR, &m.Ar}} {
		for i := 0; i < int(sec.n); i++ {
			if off >= len(b) {
				return m, 2 + s, ErrTruncated
			}
			n, nx, _, e := ReadName(b, off)
			if e != nil {
				return m, 2 + s, e
			}
			if nx+10 > len(b) {
				return m, 2 + s, ErrTruncated
			}
			rr := RR{Name: n, Type: binary.BigEndian.Uint16(b[nx:]), Class: binary.BigEndian.Uint16(b[nx+2:]), TTL: binary.BigEndian.Uint32(b[nx+4:])}
			rdl := int(binary.BigEndian.Uint16(b[nx+8:]))
			if nx+10+rdl > len(b) {
				return m, 2 + s, ErrTruncated
			}
			rr.RData = append([]byte{}, b[nx+10:nx+10+rdl]...)
			*sec.dst = append(*sec.dst, rr)
			off = nx + 10 + rdl
		}
	}
	m.Trailing = len(b) - off
	return m, -1, nil
}

// Encoder writes RFC 1035 messages; with Compress every name suffix already present at an
// offset < 0x4000 is replaced by a pointer (longest suffix first), exactly §4.1.4.
type Encoder struct {
	Compress bool
	buf      []byte
	suffix   map[string]int // wire form of a suffix (length-prefixed labels, no terminator) -> offset
	Pointers int            // number of pointers emitted
}

func suffixKey(labels []string) string {
	var sb strings.Builder
	for _, l := range labels {
		sb.WriteByte(byte(len(l)))
		sb.WriteString(l)
	}
	return sb.String()
}

func (e *Encoder) name(labels []string) error {
	w := 1
	for _, l := range labels {
		if len(l) == 0 || len(l) > 63 {
			return fmt.Errorf("refdns: label length %d", len(l))
		}
		w += 1 + len(l)
	}
	if w > 255 {
		return ErrNameTooLong
	}
	for i := range labels {
		if e.Compress {
			k := suffixKey(labels[i:])
			if off, ok := e.suffix[k]; ok {
				e.buf = append(e.buf, 0xC0|byte(off>>8), byte(off))
				e.Pointers++
				return nil
			}
			if len(e.buf) < 0x4000 {
				e.suffix[k] = len(e.buf)
			}
		}
		e.buf = append(e.buf, byte(len(labels[i])))
		e.buf = append(e.buf, labels[i]...)
	}
	e.buf = append(e.buf, 0)
	return nil
}

// Encode serialises m (header counts are taken from the slices).
func Encode(m *Msg, compress bool) ([]byte, int, error) {
	e := &Encoder{Compress: compress, suffix: map[string]int{}}
	for _, n := range []int{len(m.Q), len(m.An), len(m.Ns), len(m.Ar)} {
		if n > 0xFFFF {
			return nil, 0, errors.New("refdns: too many records")
		}
	}
	e.buf = binary.BigEndian.AppendUint16(e.buf, m.ID)
	e.buf = binary.BigEndian.AppendUint16(e.buf, m.Flags)
	e.buf = binary.BigEndian.AppendUint16(e.buf, uint16(len(m.Q)))
	e.buf = binary.BigEndian.AppendUint16(e.buf, uint16(len(m.An)))
	e.buf = binary.BigEndian.AppendUint16(e.buf, uint16(len(m.Ns)))
	e.buf = binary.BigEndian.AppendUint16(e.buf, uint16(len(m.Ar)))
	for _, q := range m.Q {
		if err := e.name(q.Name); err != nil {
			return nil, 0, err
		}
		e.buf = binary.BigEndian.AppendUint16(e.buf, q.Type)
		e.buf = binary.BigEndian.AppendUint16(e.buf, q.Class)
	}
	for _, sec := range [][]RR{m.An, m.Ns, m.Ar} {
		for _, r := range sec {
			if len(r.RData) > 0xFFFF {
				return nil, 0, errors.New("refdns: rdata too long")
			}
			if err := e.name(r.Name); err != nil {
				return nil, 0, err
			}
			e.buf = binary.BigEndian.AppendUint16(e.buf, r.Type)
			e.buf = binary.BigEndian.AppendUint16(e.buf, r.Class)
			e.buf = binary.BigEndian.AppendUint32(e.buf, r.TTL)
			e.buf = binary.BigEndian.AppendUint16(e.buf, uint16(len(r.RData)))
			e.buf = append(e.buf, r.RData...)
		}
	}
	return e.buf, e.Pointers, nil
}

// Dotted renders labels as the dotted presentation used by the library ("" for root).
func Dotted(labels []string) string { return strings.Join(labels, ".") }

// Labels splits a dotted name without empty labels ("" and "." are the root).
func Labels(dotted string) []string {
	if dotted == "" || dotted == "." {
		return nil
	}
	return strings.Split(dotted, ".")
}

func EqualNames(a, b []string) bool {
	if len(a) != len(b) {
		return false
	}
	for i := range a {
		if a[i] != b[i] {
			return false
		}
	}
	return true
}

func EqualRR(a, b RR) bool {
	return EqualNames(a.Name, b.Name) && a.Type == b.Type && a.Class == b.Class && a.TTL == b.TTL && bytes.Equal(a.RData, b.RData)
}

// ------------------------------------------------------------------ self-test

// SelfTest checks the codec on published material: the RFC 1035 §4.1.4 compression
// example (F.ISI.ARPA at 20, FOO.F.ISI.ARPA at 40 with a pointer to 20, ARPA at 64 as a
// pointer to 26, root at 92), the classic "www.example.com A IN" query bytes, a response
// with a C00C answer name as produced by every DNS server, and the rejection rules.
func SelfTest() error {
	// RFC 1035 §4.1.4 layout
	b := make([]byte, 93)
	copy(b[20:], "\x01F\x03ISI\x04ARPA\x00")
	copy(b[40:], "\x03FOO\xC0\x14")
	copy(b[64:], "\xC0\x1A")
	b[92] = 0
	for _, tc := range []struct {
		off  int
		want string
		next int
		hops int
	}{{20, "F.ISI.ARPA", 32, 0}, {40, "FOO.F.ISI.ARPA", 46, 1}, {64, "ARPA", 66, 1}, {92, "", 93, 0}} {
		l, nx, hops, err := ReadName(b, tc.off)
		if err != nil || Dotted(l) != tc.want || nx != tc.next || len(hops) != tc.hops {
			return fmt.Errorf("refdns self-test: RFC 1035 4.1.4 name at %d: got %q next %d hops %d err %v", tc.off, Dotted(l), nx, len(hops), err)
		}
	}
	// query for www.example.com A IN, id 0x1234, RD
	q, _ := hex.DecodeString("12340100000100000000000003777777076578616d706c6503636f6d0000010001")
	m, _, err := Parse(q)
	if err != nil || m.ID != 0x1234 || m.Flags != 0x0100 || len(m.Q) != 1 || Dotted(m.Q[0].Name) != "www.example.com" || m.Q[0].Type != 1 || m.Q[0].Class != 1 || m.Trailing != 0 {
		return fmt.Errorf("refdns self-test: www.example.com query: %+v %v", m, err)
	}
	enc, _, err := Encode(m, false)
	if err != nil || !bytes.Equal(enc, q) {
		return fmt.Errorf("refdns self-test: re-encoding the query gives %x", enc)
	}
	// response with compressed answer name (C00C) and A rdata 93.184.216.34, TTL 300
	r, _ := hex.DecodeString("12348180000100010000000003777777076578616d706c6503636f6d0000010001c00c000100010000012c00045db8d822")
	m, _, err = Parse(r)
	if err != nil || len(m.An) != 1 || Dotted(m.An[0].Name) != "www.example.com" || m.An[0].TTL != 300 || !bytes.Equal(m.An[0].RData, []byte{93, 184, 216, 34}) {
		return fmt.Errorf("refdns self-test: compressed response: %+v %v", m, err)
	}
	enc, np, err := Encode(m, true)
	if err != nil || !bytes.Equal(enc, r) || np != 1 {
		return fmt.Errorf("refdns self-test: compressing encoder gives %x (%d pointers)", enc, np)
	}
	// partial suffix compression: a.example.com after www.example.com points at offset 16
	m.An = append(m.An, RR{Name: []string{"a", "example", "com"}, Type: 16, Class: 1, RData: []byte{}})
	enc, np, _ = Encode(m, true)
	if np != 2 || !bytes.HasSuffix(enc, []byte("\x01a\xc0\x10\x00\x10\x00\x01\x00\x00\x00\x00\x00\x00")) {
		return fmt.Errorf("refdns self-test: suffix compression gives %x", enc)
	}
	m2, _, err := Parse(enc)
	if err != nil || !EqualRR(m2.An[1], m.An[1]) {
		return fmt.Errorf("refdns self-test: suffix-compressed message does not parse back: %v", err)
	}
	// rejection rules
	for _, tc := range []struct {
		pkt  string
		off  int
		want error
	}{
		{"\xC0\x00", 0, ErrNotBackward},          // self
		{"\x01a\xC0\x04\x00", 2, ErrNotBackward}, // forward
		{"\x01a\xC0\x00", 0, ErrLoop},            // backward into the name being read
		{"\x01a\xC0", 0, ErrTruncatedPtr},
		{"\x40a", 0, ErrReservedLabel},
		{"\x80a", 0, ErrReservedLabel},
		{"\x05ab", 0, ErrTruncated},
		{"\x01a", 0, ErrTruncated},
	} {
		_, _, _, err := ReadName([]byte(tc.pkt), tc.off)
		if err != tc.want {
			return fmt.Errorf("refdns self-test: ReadName(%x,%d) error %v, want %v", tc.pkt, tc.off, err, tc.want)
		}
	}
	// 255-octet limit: 3x63 + 61 is exactly 255 and accepted; 3x63 + 62 is rejected
	mk := func(last int) []byte {
		var p []byte
		for i := 0; i < 3; i++ {
			p = append(p, 63)
			p = append(p, bytes.Repeat([]byte{'x'}, 63)...)
		}
		p = append(p, byte(last))
		p = append(p, bytes.Repeat([]byte{'y'}, last)...)
		return append(p, 0)
	}
	if _, nx, _, err := ReadName(mk(61), 0); err != nil || nx != 255 {
		return fmt.Errorf("refdns self-test: 255-octet name rejected: %v", err)
	}
	if _, _, _, err := ReadName(mk(62), 0); err != ErrNameTooLong {
		return fmt.Errorf("refdns self-test: 256-octet name accepted")
	}
	return nil
}
