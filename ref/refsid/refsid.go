// Package refsid is an independent MS-DTYP 2.4.2 SID codec/printer and a DN builder (C16).
package refsid

import (
	"bytes"
	"encoding/hex"
	"fmt"
	"strconv"
	"strings"
)

// Encode builds the MS-DTYP 2.4.2.2 packet form: Revision(1) SubAuthorityCount(1)
// IdentifierAuthority(6, big endian) SubAuthority(count * 4, little endian).
func Encode(rev byte, auth uint64, subs []uint32) []byte {
	b := []byte{rev, byte(len(subs))}
	for i := 5; i >= 0; i-- {
		b = append(b, byte(auth>>(8*uint(i))))
	}
	for _, s := range subs {
		b = append(b, byte(s), byte(s>>8), byte(s>>16), byte(s>>24))
	}
	return b
}

// Text returns the string forms of MS-DTYP 2.4.2.1:
//
//	SID = "S-1-" IdentifierAuthority *( "-" SubAuthority )
//
// dec always prints the authority in decimal (what property C16 states); alt is the
// MS-DTYP form for authorities >= 2^32 ("0x" + 12 hex digits), "" below 2^32 where
// MS-DTYP and the property agree.
func Text(auth uint64, subs []uint32) (dec string, alt string) {
	var tail strings.Builder
	for _, s := range subs {
		tail.WriteByte('-')
		tail.WriteString(strconv.FormatUint(uint64(s), 10))
	}
	dec = "S-1-" + strconv.FormatUint(auth, 10) + tail.String()
	if auth >= 1<<32 {
		alt = fmt.Sprintf("S-1-0x%012X", auth) + tail.String()
	}
	return
}

// Accept reports whether got is an admissible rendering (decimal, or hex in either letter case for auth >= 2^32).
func Accept(got string, auth uint64, subs []uint32) bool {
	dec, alt := Text(auth, subs)
	if got == dec {
		return true
	}
	if alt != "" {
		// ABNF HEXDIG is case-insensitive; the "0x" prefix is literal
		if len(got) == len(alt) && strings.EqualFold(got, alt) && strings.HasPrefix(got, "S-1-0x") {
			return true
		}
	}
	return false
}

// RDN is one relative distinguished name: attribute type and *unescaped* value.
type RDN struct{ Type, Value string }

// Style selects how a value is escaped when the DN string is produced.
type Style int

const (
	// ADBackslash: what Active Directory emits (DsQuoteRdnValue / MS "Distinguished Names"
	// reserved characters): backslash before , + " \ < > ; = and before a '#', a leading
	// space and a trailing space.
	ADBackslash Style = iota
	// ADHex: as ADBackslash but '=' and ';' in the \XX hex form (the spelling Samba's
	// ldb_dn_escape_internal documents for Windows: \3D, \3B). Both spellings leave no
	// raw '=' inside a value; the check does not know which one a given DC uses.
	ADHex
	// RFC4514: the minimal escaping of RFC 4514 2.4 — '=' is NOT escaped. A directory
	// other than AD may emit this; it is outside "the form Active Directory emits".
	RFC4514
)

// EscapeValue escapes one attribute value in the given style.
func EscapeValue(v string, st Style) string {
	var b strings.Builder
	for i, r := range v {
		switch {
		case r == '=' || r == ';':
			switch {
			case st == ADHex:
				fmt.Fprintf(&b, "\\%02X", r)
				continue
			case st == ADBackslash || r == ';':
				b.WriteByte('\\')
			}
		case strings.ContainsRune(`,+"\<>`, r):
			b.WriteByte('\\')
		case r == '#' && (i == 0 || st != RFC4514):
			b.WriteByte('\\')
		case r == ' ' && (i == 0 || i == len(v)-1):
			b.WriteByte('\\')
		}
		b.WriteRune(r)
	}
	return b.String()
}

// DN joins RDNs as TYPE=escaped-value, comma separated, no spaces (the form AD emits).
func DN(rdns []RDN, st Style) string {
	parts := make([]string, len(rdns))
	for i, r := range rdns {
		parts[i] = r.Type + "=" + EscapeValue(r.Value, st)
	}
	return strings.Join(parts, ",")
}

// Domain is the dot-join of the values of the DC components, in order.
func Domain(rdns []RDN) string {
	var dcs []string
	for _, r := range rdns {
		if r.Type == "DC" {
			dcs = append(dcs, r.Value)
		}
	}
	return strings.Join(dcs, ".")
}

// SelfTest checks the codec on well-known SIDs (MS-DTYP 2.4.2.4, MS-DTYP 2.4.2.2 example).
func SelfTest() error {
	vs := []struct {
		hex  string
		auth uint64
		subs []uint32
		text string
	}{
		{"010100000000000512000000", 5, []uint32{18}, "S-1-5-18"},                  // Local System
		{"010100000000000100000000", 1, []uint32{0}, "S-1-1-0"},                    // Everyone
		{"01020000000000052000000020020000", 5, []uint32{32, 544}, "S-1-5-32-544"}, // BUILTIN\Administrators
		{"010100000000000300000000", 3, []uint32{0}, "S-1-3-0"},                    // Creator Owner
		{"010500000000000515000000c7f7fed77c7755c8945ace01f5030000", 5, []uint32{21, 3623811015, 3361044348, 30300820, 1013}, "S-1-5-21-3623811015-3361044348-30300820-1013"},
		{"0100000000000005", 5, nil, "S-1-5"},
	}
	for _, v := range vs {
		want, _ := hex.DecodeString(v.hex)
		if got := Encode(1, v.auth, v.subs); !bytes.Equal(got, want) {
			return fmt.Errorf("refsid self-test: Encode(%s)=%x want %s", v.text, got, v.hex)
		}
		if dec, alt := Text(v.auth, v.subs); dec != v.text || alt != "" {
			return fmt.Errorf("refsid self-test: Text=%q/%q want %q", dec, alt, v.text)
		}
	}
	if dec, alt := Text(1<<32, []uint32{7}); dec != "S-1-4294967296-7" || alt != "S-1-0x000100000000-7" {
		return fmt.Errorf("refsid self-test: large authority forms %q %q", dec, alt)
	}
	if !Accept("S-1-0x0001000000ab-7", 0x1000000ab, []uint32{7}) || !Accept("S-1-0x0001000000AB-7", 0x1000000ab, []uint32{7}) || Accept("S-1-0X0001000000AB-7", 0x1000000ab, []uint32{7}) {
		return fmt.Errorf("refsid self-test: Accept hex case handling")
	}
	rd := []RDN{{"CN", "Doe, John"}, {"OU", "Users"}, {"DC", "corp"}, {"DC", "example"}, {"DC", "com"}}
	if g := DN(rd, ADBackslash); g != `CN=Doe\, John,OU=Users,DC=corp,DC=example,DC=com` {
		return fmt.Errorf("refsid self-test: DN=%q", g)
	}
	// MS "Distinguished Names" examples: OU=Docs\, Adatum ; and the three spellings of a value holding ",DC=z"
	tr := []RDN{{"CN", "a,DC=z"}, {"DC", "x"}}
	if a, h, r := DN(tr, ADBackslash), DN(tr, ADHex), DN(tr, RFC4514); a != `CN=a\,DC\=z,DC=x` || h != `CN=a\,DC\3Dz,DC=x` || r != `CN=a\,DC=z,DC=x` {
		return fmt.Errorf("refsid self-test: styles %q %q %q", a, h, r)
	}
	if g := EscapeValue(` #a;b\ `, ADBackslash); g != `\ \#a\;b\\\ ` {
		return fmt.Errorf("refsid self-test: EscapeValue=%q", g)
	}
	if g := Domain(rd); g != "corp.example.com" {
		return fmt.Errorf("refsid self-test: Domain=%q", g)
	}
	return nil
}
