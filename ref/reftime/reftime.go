// Package reftime is the arbitrary-precision reference for Windows tick <-> Unix
// conversions (C15). All arithmetic is math/big; nothing here multiplies int64s.
//
// An instant is (unix seconds, nanoseconds in [0,1e9)). A tick count is a number
// of 100 ns intervals since an epoch given as unix seconds (1601-01-01 for
// FILETIME / LDAP / key-credential times, 1582-10-15 for UUID timestamps).
package reftime

import (
	"fmt"
	"math/big"
	"time"
)

const (
	// Epoch1601 is 1601-01-01T00:00:00Z in unix seconds (= -116444736000000000 ticks / 1e7).
	Epoch1601 int64 = -11644473600
	// Epoch1582 is 1582-10-15T00:00:00Z in unix seconds (RFC 4122: 0x01B21DD213814000 ticks before 1970).
	Epoch1582 int64 = -12219292800
)

var (
	ten7   = big.NewInt(10_000_000)
	ten9   = big.NewInt(1_000_000_000)
	b100   = big.NewInt(100)
	MinI64 = new(big.Int).SetInt64(-1 << 63)
	MaxI64 = new(big.Int).SetInt64(1<<63 - 1)
)

func B(v int64) *big.Int   { return new(big.Int).SetInt64(v) }
func BU(v uint64) *big.Int { return new(big.Int).SetUint64(v) }

// FloorDivMod is Euclidean/floor division for a positive divisor.
func FloorDivMod(a, m *big.Int) (q, r *big.Int) {
	q, r = new(big.Int).DivMod(a, m, new(big.Int)) // DivMod is Euclidean: 0 <= r < |m|
	return
}

// TicksToUnix returns the instant epoch + ticks*100ns as (sec, nsec) with 0<=nsec<1e9.
func TicksToUnix(ticks *big.Int, epoch int64) (sec *big.Int, nsec int64) {
	q, r := FloorDivMod(ticks, ten7)
	sec = new(big.Int).Add(q, B(epoch))
	return sec, r.Int64() * 100
}

// UnixToTicks returns floor((instant-epoch)/100ns) and the remainder in ns (0..99).
func UnixToTicks(sec int64, nsec int64, epoch int64) (ticks *big.Int, remNs int64) {
	ns := new(big.Int).Mul(new(big.Int).Sub(B(sec), B(epoch)), ten9)
	ns.Add(ns, B(nsec))
	q, r := FloorDivMod(ns, b100)
	return q, r.Int64()
}

// UnixNanoFits reports whether the instant is representable as int64 unix nanoseconds
// (1677-09-21T00:12:43.145224192Z .. 2262-04-11T23:47:16.854775807Z), the window in which
// code going through time.UnixNano / time.Unix(0, ns) happens to work.
func UnixNanoFits(sec *big.Int, nsec int64) bool {
	ns := new(big.Int).Mul(sec, ten9)
	ns.Add(ns, B(nsec))
	return ns.Cmp(MinI64) >= 0 && ns.Cmp(MaxI64) <= 0
}

// SameInstant compares a time.Time with a reference instant using only Time.Unix and Time.Nanosecond.
func SameInstant(t time.Time, sec *big.Int, nsec int64) bool {
	return sec.IsInt64() && t.Unix() == sec.Int64() && int64(t.Nanosecond()) == nsec
}

// Civil converts unix seconds to a proleptic Gregorian UTC date-time (days algorithm of
// H. Hinnant, "chrono-compatible low-level date algorithms", civil_from_days), in big arithmetic.
func Civil(sec *big.Int) (y int64, mo, d, h, mi, s int) {
	days, rem := FloorDivMod(sec, big.NewInt(86400))
	r := int(rem.Int64())
	h, mi, s = r/3600, r/60%60, r%60
	z := new(big.Int).Add(days, big.NewInt(719468))
	era, doeB := FloorDivMod(z, big.NewInt(146097))
	doe := doeB.Int64()
	yoe := (doe - doe/1460 + doe/36524 - doe/146096) / 365
	doy := doe - (365*yoe + yoe/4 - yoe/100)
	mp := (5*doy + 2) / 153
	d = int(doy - (153*mp+2)/5 + 1)
	if mp < 10 {
		mo = int(mp + 3)
	} else {
		mo = int(mp - 9)
	}
	y = yoe + era.Int64()*400
	if mo <= 2 {
		y++
	}
	return
}

// FormatFT is the documented output form of FILETIME.GetTimeString: UTC,
// "2006-01-02 15:04:05.00000" (five fractional digits, truncated). Only for years 0..9999.
func FormatFT(sec *big.Int, nsec int64) string {
	y, mo, d, h, mi, s := Civil(sec)
	return fmt.Sprintf("%04d-%02d-%02d %02d:%02d:%02d.%05d", y, mo, d, h, mi, s, nsec/10000)
}

// SelfTest checks the reference on published constants.
func SelfTest() error {
	type vec struct {
		ticks string
		epoch int64
		sec   int64
		nsec  int64
		civil string
	}
	vs := []vec{
		// MS "116444736000000000" = 1970-01-01 in FILETIME ticks (KB167296)
		{"116444736000000000", Epoch1601, 0, 0, "1970-01-01 00:00:00.00000"},
		{"0", Epoch1601, -11644473600, 0, "1601-01-01 00:00:00.00000"},
		// RFC 4122 / google/uuid g1582ns100 = 122192928000000000
		{"122192928000000000", Epoch1582, 0, 0, "1970-01-01 00:00:00.00000"},
		{"0", Epoch1582, -12219292800, 0, "1582-10-15 00:00:00.00000"},
		// 2000-01-01 = 125911584000000000 (.NET DateTime(2000,1,1).ToFileTimeUtc())
		{"125911584000000000", Epoch1601, 946684800, 0, "2000-01-01 00:00:00.00000"},
		// Wireshark-decoded SMB time used by the repository's own test: 0x01cc64ff55528a14
		{"129589537097812500", Epoch1601, 1314480109, 781250000, "2011-08-27 21:21:49.78125"},
		// largest FILETIME: 30828-09-14 02:48:05.4775807
		{"9223372036854775807", Epoch1601, 910692730085, 477580700, ""},
	}
	for _, v := range vs {
		t, _ := new(big.Int).SetString(v.ticks, 10)
		sec, nsec := TicksToUnix(t, v.epoch)
		if !sec.IsInt64() || sec.Int64() != v.sec || nsec != v.nsec {
			return fmt.Errorf("reftime self-test: TicksToUnix(%s)=(%v,%d) want (%d,%d)", v.ticks, sec, nsec, v.sec, v.nsec)
		}
		back, rem := UnixToTicks(v.sec, v.nsec, v.epoch)
		if back.Cmp(t) != 0 || rem != 0 {
			return fmt.Errorf("reftime self-test: UnixToTicks(%d,%d)=%v rem %d want %s", v.sec, v.nsec, back, rem, v.ticks)
		}
		if v.civil != "" {
			if g := FormatFT(sec, nsec); g != v.civil {
				return fmt.Errorf("reftime self-test: civil(%s)=%q want %q", v.ticks, g, v.civil)
			}
		}
	}
	if y, mo, d, h, mi, s := Civil(B(910692730085)); y != 30828 || mo != 9 || d != 14 || h != 2 || mi != 48 || s != 5 {
		return fmt.Errorf("reftime self-test: civil(max FILETIME) = %d-%d-%d %d:%d:%d", y, mo, d, h, mi, s)
	}
	// documented limits of int64 nanoseconds (package time): 1677-09-21 00:12:43.145224192, 2262-04-11 23:47:16.854775807
	if y, mo, d, h, mi, s := Civil(B(-9223372037)); y != 1677 || mo != 9 || d != 21 || h != 0 || mi != 12 || s != 43 {
		return fmt.Errorf("reftime self-test: civil(min ns) = %d-%d-%d %d:%d:%d", y, mo, d, h, mi, s)
	}
	if y, mo, d, h, mi, s := Civil(B(9223372036)); y != 2262 || mo != 4 || d != 11 || h != 23 || mi != 47 || s != 16 {
		return fmt.Errorf("reftime self-test: civil(max ns) = %d-%d-%d %d:%d:%d", y, mo, d, h, mi, s)
	}
	if !UnixNanoFits(B(9223372036), 854775807) || UnixNanoFits(B(9223372036), 854775808) ||
		!UnixNanoFits(B(-9223372037), 145224192) || UnixNanoFits(B(-9223372037), 145224191) {
		return fmt.Errorf("reftime self-test: UnixNanoFits limits wrong")
	}
	// the civil algorithm and the standard library agree on a sweep of instants (two independent calendars)
	for _, s := range []int64{-62135596800, -12219292800, -11644473600, -1, 0, 951782400, 4102444800, 253402300799, 253402300800, 910692730085} {
		y, mo, d, h, mi, sc := Civil(B(s))
		g := time.Unix(s, 0).UTC()
		if int64(g.Year()) != y || int(g.Month()) != mo || g.Day() != d || g.Hour() != h || g.Minute() != mi || g.Second() != sc {
			return fmt.Errorf("reftime self-test: civil(%d) disagrees with package time: %d-%d-%d vs %v", s, y, mo, d, g)
		}
	}
	return nil
}
