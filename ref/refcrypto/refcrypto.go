// Package refcrypto holds independent reference implementations used as oracles:
// UTF-16LE, NT hash (x/crypto md4), LM hash (own str_to_key + crypto/des), DCC/DCC2
// (own PBKDF2-HMAC-SHA1), DESL, NTOWFv2 / NTLMv2 proof. Self-tested on published vectors.
package refcrypto

import (
	"crypto/des"
	"crypto/hmac"
	"crypto/md5"
	"crypto/sha1"
	"encoding/binary"
	"encoding/hex"
	"fmt"
	"unicode"
	stdutf16 "unicode/utf16"

	xmd4 "golang.org/x/crypto/md4"
)

func MD4(b []byte) [16]byte {
	h := xmd4.New()
	h.Write(b)
	var o [16]byte
	copy(o[:], h.Sum(nil))
	return o
}

// UTF16LE encodes valid UTF-8 text as UTF-16 little endian, rune by rune.
func UTF16LE(s string) []byte {
	var out []byte
	for _, r := range s {
		if r >= 0x10000 {
			r1, r2 := stdutf16.EncodeRune(r)
			out = binary.LittleEndian.AppendUint16(out, uint16(r1))
			out = binary.LittleEndian.AppendUint16(out, uint16(r2))
		} else {
			out = binary.LittleEndian.AppendUint16(out, uint16(r))
		}
	}
	return out
}

func Lower(s string) string {
	out := make([]rune, 0, len(s))
	for _, r := range s {
		out = append(out, unicode.ToLower(r))
	}
	return string(out)
}
func Upper(s string) string {
	out := make([]rune, 0, len(s))
	for _, r := range s {
		out = append(out, unicode.ToUpper(r))
	}
	return string(out)
}

func NT(password string) [16]byte { return MD4(UTF16LE(password)) }

// StrToKey spreads 7 bytes over 8 bytes (7 bits each, in the high bits) and sets odd parity.
func StrToKey(k7 []byte) []byte {
	var v uint64
	for i := 0; i < 7; i++ {
		v = v<<8 | uint64(k7[i])
	}
	out := make([]byte, 8)
	for i := 0; i < 8; i++ {
		g := byte(v>>(uint(7-i)*7)&0x7f) << 1
		// odd parity
		p := byte(1)
		for b := g; b != 0; b >>= 1 {
			p ^= b & 1
		}
		out[i] = g | p
	}
	return out
}

func desEnc(key7, block []byte) []byte {
	c, err := des.NewCipher(StrToKey(key7))
	if err != nil {
		panic(err)
	}
	out := make([]byte, 8)
	c.Encrypt(out, block)
	return out
}

// LM computes the LM hash of a 7-bit ASCII password.
func LM(password string) []byte {
	p := make([]byte, 14)
	for i := 0; i < len(password) && i < 14; i++ {
		c := password[i]
		if c >= 'a' && c <= 'z' {
			c -= 32
		}
		p[i] = c
	}
	magic := []byte("KGS!@#$%")
	return append(desEnc(p[:7], magic), desEnc(p[7:], magic)...)
}

// DESL per MS-NLMP 6: three DES encryptions of an 8-byte block under a 16-byte key zero-padded to 21.
func DESL(k16, d8 []byte) []byte {
	k := make([]byte, 21)
	copy(k, k16)
	out := desEnc(k[0:7], d8)
	out = append(out, desEnc(k[7:14], d8)...)
	out = append(out, desEnc(k[14:21], d8)...)
	return out
}

func DCC(nt [16]byte, user string) [16]byte {
	return MD4(append(append([]byte{}, nt[:]...), UTF16LE(Lower(user))...))
}

// PBKDF2SHA1 is an own PBKDF2-HMAC-SHA1 (RFC 2898) so that x/crypto/pbkdf2 is not trusted.
func PBKDF2SHA1(password, salt []byte, iter, keyLen int) []byte {
	var out []byte
	for blk := uint32(1); len(out) < keyLen; blk++ {
		m := hmac.New(sha1.New, password)
		m.Write(salt)
		var ib [4]byte
		binary.BigEndian.PutUint32(ib[:], blk)
		m.Write(ib[:])
		u := m.Sum(nil)
		t := append([]byte{}, u...)
		for i := 1; i < iter; i++ {
			m = hmac.New(sha1.New, password)
			m.Write(u)
			u = m.Sum(nil)
			for j := range t {
				t[j] ^= u[j]
			}
		}
		out = append(out, t...)
	}
	return out[:keyLen]
}

func DCC2(nt [16]byte, user string, rounds int) []byte {
	d := DCC(nt, user)
	return PBKDF2SHA1(d[:], UTF16LE(Lower(user)), rounds, 16)
}

func HMACMD5(key []byte, parts ...[]byte) []byte {
	m := hmac.New(md5.New, key)
	for _, p := range parts {
		m.Write(p)
	}
	return m.Sum(nil)
}

// NTOWFv2 per MS-NLMP 3.3.2: HMAC-MD5(NT(password), UTF16LE(Upper(user) || domain)).
func NTOWFv2(nt [16]byte, user, domain string) []byte {
	return HMACMD5(nt[:], UTF16LE(Upper(user)+domain))
}

// SelfTest checks the references against published vectors.
func SelfTest() error {
	eq := func(name, got, want string) error {
		if got != want {
			return fmt.Errorf("reference self-test %s: got %s want %s", name, got, want)
		}
		return nil
	}
	h := func(b []byte) string { return hex.EncodeToString(b) }
	// RFC 1320 A.5
	for in, want := range map[string]string{
		"":    "31d6cfe0d16ae931b73c59d7e0c089c0",
		"a":   "bde52cb31de33e46245e05fbdbd6fb24",
		"abc": "a448017aaf21d8525fc10ae87aa6729d",
		"12345678901234567890123456789012345678901234567890123456789012345678901234567890": "e33b4ddc9c38f2199c3e7b164fcc0536",
	} {
		d := MD4([]byte(in))
		if err := eq("md4("+in+")", h(d[:]), want); err != nil {
			return err
		}
	}
	// MS-NLMP 4.2.1/4.2.2: User "User", Domain "Domain", Password "Password"
	nt := NT("Password")
	if err := eq("NTOWFv1", h(nt[:]), "a4f49c406510bdcab6824ee7c30fd852"); err != nil {
		return err
	}
	if err := eq("LMOWFv1", h(LM("Password")), "e52cac67419a9a224a3b108f3fa6cb6d"); err != nil {
		return err
	}
	ch, _ := hex.DecodeString("0123456789abcdef")
	if err := eq("NTLMv1 NtChallengeResponse", h(DESL(nt[:], ch)), "67c43011f30298a2ad35ece64f16331c44bdbed927841f94"); err != nil {
		return err
	}
	if err := eq("NTLMv1 LmChallengeResponse", h(DESL(LM("Password"), ch)), "98def7b87f88aa5dafe2df779688a172def11c7d5ccdef13"); err != nil {
		return err
	}
	// MS-NLMP 4.2.4.1.1 NTOWFv2
	if err := eq("NTOWFv2", h(NTOWFv2(nt, "User", "Domain")), "0c868a403bfd7a93a3001ef22ef02e3f"); err != nil {
		return err
	}
	// RFC 6070 PBKDF2-HMAC-SHA1 vectors
	if err := eq("pbkdf2 c=1", h(PBKDF2SHA1([]byte("password"), []byte("salt"), 1, 20)), "0c60c80f961f0e71f3a9b524af6012062fe037a6"); err != nil {
		return err
	}
	if err := eq("pbkdf2 c=4096", h(PBKDF2SHA1([]byte("password"), []byte("salt"), 4096, 20)), "4b007901b765489abead49d926f721d065a429c1"); err != nil {
		return err
	}
	// hashcat example hashes: mode 1100 "4dd8965d1d476fa0d026722989a6b772:3060147285011" (hashcat), mode 2100 "$DCC2$10240#tom#e4e938d12fe5974dc42a90120bd9c90f" (hashcat)
	d := DCC(NT("hashcat"), "3060147285011")
	if err := eq("hashcat 1100", h(d[:]), "4dd8965d1d476fa0d026722989a6b772"); err != nil {
		return err
	}
	if err := eq("hashcat 2100", h(DCC2(NT("hashcat"), "tom", 10240)), "e4e938d12fe5974dc42a90120bd9c90f"); err != nil {
		return err
	}
	return nil
}
