// Package refguid is the independent reference for property C13: the MS-DTYP 2.3.4.2
// mixed-endian GUID packet codec and the five .NET text formats (N, D, B, P, X), the
// RFC 4122 version-1 field layout and timestamp arithmetic, and the nibble split that the
// library's generic UUID type uses (version nibble, "variant" nibble, 15 data bytes).
// It imports nothing from the library under test; google/uuid is used only in SelfTest.
package refguid

import (
	"encoding/hex"
	"fmt"
	"strings"
	"time"

	guuid "github.com/google/uuid"
)

// Fields is the MS-DTYP GUID structure.
type Fields struct {
	Data1 uint32
	Data2 uint16
	Data3 uint16
	Data4 [8]byte
}

// Decode reads the packet representation: Data1..Data3 little-endian, Data4 as is.
func Decode(raw [16]byte) Fields {
	var f Fields
	for i := 3; i >= 0; i-- {
		f.Data1 = f.Data1*256 + uint32(raw[i])
	}
	f.Data2 = uint16(raw[5])*256 + uint16(raw[4])
	f.Data3 = uint16(raw[7])*256 + uint16(raw[6])
	for i := 0; i < 8; i++ {
		f.Data4[i] = raw[8+i]
	}
	return f
}

// Encode writes the packet representation.
func Encode(f Fields) [16]byte {
	var raw [16]byte
	v := f.Data1
	for i := 0; i < 4; i++ {
		raw[i] = byte(v % 256)
		v /= 256
	}
	raw[4], raw[5] = byte(f.Data2%256), byte(f.Data2/256)
	raw[6], raw[7] = byte(f.Data3%256), byte(f.Data3/256)
	for i := 0; i < 8; i++ {
		raw[8+i] = f.Data4[i]
	}
	return raw
}

// RFCOrder returns the same identifier in RFC 4122 network byte order.
func RFCOrder(raw [16]byte) [16]byte {
	out := raw
	out[0], out[1], out[2], out[3] = raw[3], raw[2], raw[1], raw[0]
	out[4], out[5] = raw[5], raw[4]
	out[6], out[7] = raw[7], raw[6]
	return out
}

// hexOf returns the 32 lower-case hex digits in text order (Data1, Data2, Data3, Data4).
func hexOf(f Fields) string {
	be := RFCOrder(Encode(f))
	return hex.EncodeToString(be[:])
}

// Format returns the text form for format letter N, D, B, P or X (lower-case hex digits).
func Format(f Fields, format byte) string {
	h := hexOf(f)
	d := h[0:8] + "-" + h[8:12] + "-" + h[12:16] + "-" + h[16:20] + "-" + h[20:32]
	switch format {
	case 'N':
		return h
	case 'D':
		return d
	case 'B':
		return "{" + d + "}"
	case 'P':
		return "(" + d + ")"
	case 'X':
		var parts []string
		for i := 16; i < 32; i += 2 {
			parts = append(parts, "0x"+h[i:i+2])
		}
		return "{0x" + h[0:8] + ",0x" + h[8:12] + ",0x" + h[12:16] + ",{" + strings.Join(parts, ",") + "}}"
	}
	panic("refguid: unknown format")
}

// UpperHex upper-cases the hexadecimal digits of a GUID text but leaves every "0x" prefix alone.
func UpperHex(s string) string {
	b := []byte(s)
	for i := range b {
		if b[i] >= 'a' && b[i] <= 'f' {
			b[i] -= 32
		}
	}
	return string(b)
}

// D and E are the two numbers the library's GUID struct keeps for Data4.
func D(f Fields) uint16 { return uint16(f.Data4[0])*256 + uint16(f.Data4[1]) }
func E(f Fields) uint64 {
	var e uint64
	for i := 2; i < 8; i++ {
		e = e*256 + uint64(f.Data4[i])
	}
	return e
}

// ---------------------------------------------------------------- generic UUID nibble split

// Split separates the 32 nibbles of v into nibble 12 (version), nibble 16 (the library's
// "variant") and the remaining 30 nibbles packed in order into 15 bytes.
func Split(v [16]byte) (version, variant byte, data [15]byte) {
	h := hex.EncodeToString(v[:])
	rest := h[:12] + h[13:16] + h[17:]
	d, _ := hex.DecodeString(rest)
	copy(data[:], d)
	version = nib(h[12])
	variant = nib(h[16])
	return
}

// Join is the inverse of Split (version and variant taken modulo 16).
func Join(version, variant byte, data [15]byte) [16]byte {
	r := hex.EncodeToString(data[:])
	const digits = "0123456789abcdef"
	h := r[:12] + string(digits[version&15]) + r[12:15] + string(digits[variant&15]) + r[15:]
	b, _ := hex.DecodeString(h)
	var out [16]byte
	copy(out[:], b)
	return out
}

func nib(c byte) byte {
	if c >= 'a' {
		return c - 'a' + 10
	}
	return c - '0'
}

// ---------------------------------------------------------------- RFC 4122 version 1

// daysFromCivil is the number of days from 1970-01-01 to y-m-d in the proleptic Gregorian calendar.
func daysFromCivil(y, m, d int64) int64 {
	if m <= 2 {
		y--
	}
	era := y / 400
	if y < 0 {
		era = (y - 399) / 400
	}
	yoe := y - era*400
	mp := (m + 9) % 12
	doy := (153*mp+2)/5 + d - 1
	doe := yoe*365 + yoe/4 - yoe/100 + doy
	return era*146097 + doe - 719468
}

// GregorianOffset100ns is the count of 100 ns intervals from 1582-10-15 to 1970-01-01.
func GregorianOffset100ns() uint64 {
	days := daysFromCivil(1970, 1, 1) - daysFromCivil(1582, 10, 15)
	return uint64(days) * 86400 * 10000000
}

// V1Ticks converts t (>= 1970) to the 60-bit RFC 4122 timestamp.
func V1Ticks(t time.Time) uint64 {
	return GregorianOffset100ns() + uint64(t.Unix())*10000000 + uint64(t.Nanosecond()/100)
}

// V1Time converts a 60-bit timestamp (>= the Unix epoch) back to time.
func V1Time(ticks uint64) time.Time {
	u := ticks - GregorianOffset100ns()
	return time.Unix(int64(u/10000000), int64(u%10000000)*100).UTC()
}

// V1Bytes lays out a version-1 UUID per RFC 4122 §4.1.2: time_low, time_mid,
// time_hi_and_version, clock_seq_hi_and_reserved (top two bits = variantBits), clock_seq_low, node.
func V1Bytes(ticks uint64, variantBits byte, clock14 uint16, node [6]byte) [16]byte {
	var b [16]byte
	tl := uint32(ticks & 0xffffffff)
	tm := uint16(ticks >> 32 & 0xffff)
	th := uint16(ticks>>48&0x0fff) | 0x1000
	b[0], b[1], b[2], b[3] = byte(tl>>24), byte(tl>>16), byte(tl>>8), byte(tl)
	b[4], b[5] = byte(tm>>8), byte(tm)
	b[6], b[7] = byte(th>>8), byte(th)
	b[8] = variantBits<<6 | byte(clock14>>8)&0x3f
	b[9] = byte(clock14)
	copy(b[10:], node[:])
	return b
}

// V1Fields reads the RFC 4122 fields back.
func V1Fields(b [16]byte) (ticks uint64, variantBits byte, clock14 uint16, node [6]byte) {
	ticks = uint64(b[0])<<24 | uint64(b[1])<<16 | uint64(b[2])<<8 | uint64(b[3])
	ticks |= (uint64(b[4])<<8 | uint64(b[5])) << 32
	ticks |= (uint64(b[6]&0x0f)<<8 | uint64(b[7])) << 48
	variantBits = b[8] >> 6
	clock14 = uint16(b[8]&0x3f)<<8 | uint16(b[9])
	copy(node[:], b[10:])
	return
}

// ---------------------------------------------------------------- self-test

func SelfTest() error {
	// published layout examples: .NET Guid.ToByteArray documentation and the classic DCE example
	for _, v := range []struct{ text, raw string }{
		{"00112233-4455-6677-8899-aabbccddeeff", "33221100554477668899aabbccddeeff"},
		{"6b29fc40-ca47-1067-b31d-00dd010662da", "40fc296b47ca6710b31d00dd010662da"},
	} {
		rb, _ := hex.DecodeString(v.raw)
		var raw [16]byte
		copy(raw[:], rb)
		f := Decode(raw)
		if g := Format(f, 'D'); g != v.text {
			return fmt.Errorf("refguid: Decode/Format(%s) = %s want %s", v.raw, g, v.text)
		}
		if Encode(f) != raw {
			return fmt.Errorf("refguid: Encode(Decode(%s)) = %x", v.raw, Encode(f))
		}
		// the RFC-order bytes must be what google/uuid parses from the same text
		gu, err := guuid.Parse(v.text)
		if err != nil || [16]byte(gu) != RFCOrder(raw) {
			return fmt.Errorf("refguid: RFCOrder(%s) = %x, google/uuid bytes %x", v.raw, RFCOrder(raw), gu[:])
		}
		for _, fm := range []byte("NDBP") {
			gu2, err := guuid.Parse(Format(f, fm))
			if err != nil || gu2 != gu {
				return fmt.Errorf("refguid: format %c text %q not parsed back by google/uuid: %v", fm, Format(f, fm), err)
			}
		}
	}
	var raw [16]byte
	rb, _ := hex.DecodeString("33221100554477668899aabbccddeeff")
	copy(raw[:], rb)
	if g := Format(Decode(raw), 'X'); g != "{0x00112233,0x4455,0x6677,{0x88,0x99,0xaa,0xbb,0xcc,0xdd,0xee,0xff}}" {
		return fmt.Errorf("refguid: format X = %s", g)
	}
	if UpperHex("{0x00aabbcc,0xdd") != "{0x00AABBCC,0xDD" {
		return fmt.Errorf("refguid: UpperHex")
	}
	// RFC 4122 §4.1.4: the offset between the Gregorian reform and the Unix epoch
	if GregorianOffset100ns() != 0x01B21DD213814000 {
		return fmt.Errorf("refguid: Gregorian offset = %#x want 0x01B21DD213814000", GregorianOffset100ns())
	}
	// RFC 4122 example UUID, fields by google/uuid
	gu := guuid.MustParse("f81d4fae-7dec-11d0-a765-00a0c91e6bf6")
	ticks, vb, clk, node := V1Fields(gu)
	if int64(ticks) != int64(gu.Time()) || int(clk) != gu.ClockSequence() || string(node[:]) != string(gu.NodeID()) || vb != 2 {
		return fmt.Errorf("refguid: V1Fields disagree with google/uuid on the RFC 4122 example")
	}
	if V1Bytes(ticks, vb, clk, node) != [16]byte(gu) {
		return fmt.Errorf("refguid: V1Bytes does not rebuild the RFC 4122 example")
	}
	sec, nsec := gu.Time().UnixTime()
	if !V1Time(ticks).Equal(time.Unix(sec, nsec)) || V1Ticks(time.Unix(sec, nsec)) != ticks {
		return fmt.Errorf("refguid: V1Time/V1Ticks disagree with google/uuid on the RFC 4122 example")
	}
	// nibble split
	ver, vr, data := Split(gu)
	if ver != 1 || vr != 0xa || hex.EncodeToString(data[:]) != "f81d4fae7dec1d0765"+"00a0c91e6bf6" || Join(ver, vr, data) != [16]byte(gu) {
		return fmt.Errorf("refguid: Split/Join wrong: %x %x %x", ver, vr, data)
	}
	return nil
}
