package refguid

import "testing"

func TestSelfTest(t *testing.T) {
	if err := SelfTest(); err != nil {
		t.Fatal(err)
	}
}
