// Package refkeycred is an independent reader/writer of msDS-KeyCredentialLink blobs
// (MS-ADTS 2.2.20 KEYCREDENTIALLINK_BLOB / _ENTRY), of BCRYPT_RSAKEY_BLOB public keys and
// of the Object(DN-Binary) LDAP string syntax "B:<char count>:<hex>:<dn>" (MS-ADTS 3.1.1.2.2.2).
// It shares no code with the library; it is used to compute the byte region the
// KeyHash covers and to check the serialised structure.
package refkeycred

import (
	"bytes"
	"crypto/sha256"
	"encoding/binary"
	"encoding/hex"
	"errors"
	"fmt"
	"strconv"
	"strings"
)

// Entry identifiers (MS-ADTS 2.2.20.6).
const (
	KeyID         = 1 // SHA256 of the Value of the KeyMaterial entry
	KeyHash       = 2 // SHA256 of all entries following this entry
	KeyMaterial   = 3
	KeyUsage      = 4
	KeySource     = 5
	DeviceId      = 6
	CustomKeyInfo = 7
	LastLogon     = 8
	Creation      = 9
)

type Entry struct {
	Type   byte
	Start  int // offset of the 16-bit length field
	VStart int // offset of the value
	End    int // offset one past the value
}

type Blob struct {
	Raw     []byte
	Version uint32
	Entries []Entry
}

// Parse reads Version(4, LE) then entries Length(2, LE) Identifier(1) Value(Length) and
// requires the entries to tile the buffer exactly.
func Parse(b []byte) (*Blob, error) {
	if len(b) < 4 {
		return nil, errors.New("shorter than the version field")
	}
	bl := &Blob{Raw: b, Version: binary.LittleEndian.Uint32(b)}
	p := 4
	for p < len(b) {
		if len(b)-p < 3 {
			return nil, fmt.Errorf("truncated entry header at %d", p)
		}
		n := int(b[p]) | int(b[p+1])<<8
		e := Entry{Type: b[p+2], Start: p, VStart: p + 3, End: p + 3 + n}
		if e.End > len(b) {
			return nil, fmt.Errorf("entry at %d (type %d, length %d) runs past the end", p, e.Type, n)
		}
		bl.Entries = append(bl.Entries, e)
		p = e.End
	}
	return bl, nil
}

func (bl *Blob) Value(e Entry) []byte { return bl.Raw[e.VStart:e.End] }

// Find returns all entries of a type.
func (bl *Blob) Find(t byte) []Entry {
	var out []Entry
	for _, e := range bl.Entries {
		if e.Type == t {
			out = append(out, e)
		}
	}
	return out
}

// One returns the value of the only entry of type t.
func (bl *Blob) One(t byte) ([]byte, error) {
	es := bl.Find(t)
	if len(es) != 1 {
		return nil, fmt.Errorf("%d entries of type %d, want 1", len(es), t)
	}
	return bl.Value(es[0]), nil
}

// HashRegion is the offset where the bytes covered by the KeyHash begin: everything
// after the (first) KeyHash entry up to the end of the blob.
func (bl *Blob) HashRegion() (start int, err error) {
	es := bl.Find(KeyHash)
	if len(es) == 0 {
		return 0, errors.New("no KeyHash entry")
	}
	return es[0].End, nil
}

// ExpectedKeyHash = SHA256(all entries following the KeyHash entry).
func (bl *Blob) ExpectedKeyHash() ([]byte, error) {
	s, err := bl.HashRegion()
	if err != nil {
		return nil, err
	}
	h := sha256.Sum256(bl.Raw[s:])
	return h[:], nil
}

// RSA is a decoded BCRYPT_RSAKEY_BLOB (public or private-with-primes):
// Magic(4) BitLength(4) cbPublicExp(4) cbModulus(4) cbPrime1(4) cbPrime2(4), all LE,
// then PublicExponent (big endian), Modulus, Prime1, Prime2.
type RSA struct {
	Magic     string
	BitLength uint32
	Exponent  []byte
	Modulus   []byte
	Prime1    []byte
	Prime2    []byte
}

func ParseRSA(v []byte) (*RSA, error) {
	if len(v) < 24 {
		return nil, errors.New("shorter than BCRYPT_RSAKEY_BLOB header")
	}
	r := &RSA{Magic: string(v[:4]), BitLength: binary.LittleEndian.Uint32(v[4:])}
	ce := int(binary.LittleEndian.Uint32(v[8:]))
	cm := int(binary.LittleEndian.Uint32(v[12:]))
	c1 := int(binary.LittleEndian.Uint32(v[16:]))
	c2 := int(binary.LittleEndian.Uint32(v[20:]))
	if 24+ce+cm+c1+c2 != len(v) {
		return nil, fmt.Errorf("sizes %d+%d+%d+%d do not add up to %d", ce, cm, c1, c2, len(v)-24)
	}
	p := 24
	r.Exponent, p = v[p:p+ce], p+ce
	r.Modulus, p = v[p:p+cm], p+cm
	r.Prime1, p = v[p:p+c1], p+c1
	r.Prime2 = v[p : p+c2]
	return r, nil
}

// ExponentValue interprets the big-endian exponent bytes.
func (r *RSA) ExponentValue() (uint64, bool) {
	var x uint64
	for _, b := range r.Exponent {
		if x>>56 != 0 {
			return 0, false
		}
		x = x<<8 | uint64(b)
	}
	return x, true
}

// GUID returns the MS-DTYP 2.3.4.2 packet form: Data1 LE32, Data2 LE16, Data3 LE16, Data4 8 bytes in order.
func GUID(d1 uint32, d2, d3 uint16, d4 [8]byte) []byte {
	var b [16]byte
	binary.LittleEndian.PutUint32(b[0:], d1)
	binary.LittleEndian.PutUint16(b[4:], d2)
	binary.LittleEndian.PutUint16(b[6:], d3)
	copy(b[8:], d4[:])
	return b[:]
}

// Build writes a blob the way MS-ADTS describes it (used by the self-test only; the check never
// compares the library's bytes with this writer, it only *reads* the library's blobs).
func Build(version uint32, entries [][2]any) []byte {
	var out bytes.Buffer
	var v [4]byte
	binary.LittleEndian.PutUint32(v[:], version)
	out.Write(v[:])
	for _, e := range entries {
		val := e[1].([]byte)
		out.WriteByte(byte(len(val)))
		out.WriteByte(byte(len(val) >> 8))
		out.WriteByte(byte(e[0].(int)))
		out.Write(val)
	}
	return out.Bytes()
}

// FormatDNBinary is the LDAP DN-Binary string: "B:" <number of hex characters> ":" <hex> ":" <dn>.
func FormatDNBinary(dn string, bin []byte) string {
	return "B:" + strconv.Itoa(2*len(bin)) + ":" + hex.EncodeToString(bin) + ":" + dn
}

// ParseDNBinary reads the DN-Binary string; only the first three colons delimit, the DN is the rest.
func ParseDNBinary(s string) (dn string, bin []byte, err error) {
	if !strings.HasPrefix(s, "B:") {
		return "", nil, errors.New("no B: prefix")
	}
	rest := s[2:]
	i := strings.IndexByte(rest, ':')
	if i < 0 {
		return "", nil, errors.New("no count")
	}
	n, err := strconv.Atoi(rest[:i])
	if err != nil || n < 0 {
		return "", nil, errors.New("bad count")
	}
	rest = rest[i+1:]
	if len(rest) < n+1 || rest[n] != ':' {
		return "", nil, errors.New("count does not match")
	}
	bin, err = hex.DecodeString(rest[:n])
	if err != nil {
		return "", nil, err
	}
	return rest[n+1:], bin, nil
}

// SelfTest: no published msDS-KeyCredentialLink blob is available offline, so the vector is
// assembled by hand from the MS-ADTS 2.2.20 field description (hex literal below) and read
// back by the parser; writer and reader are structurally different code.
func SelfTest() error {
	material, _ := hex.DecodeString("52534131" + "00080000" + "03000000" + "02000000" + "00000000" + "00000000" + "010001" + "c0de")
	tail := "1d0003" + hex.EncodeToString(material) + // KeyMaterial, 29 bytes
		"01000401" + // KeyUsage NGC
		"01000500" + // KeySource AD
		"100006" + "04030201" + "0605" + "0807" + "090a0b0c0d0e0f10" + // DeviceId {01020304-0506-0708-090a-0b0c0d0e0f10}
		"0200070100" + // CustomKeyInformation version 1 flags 0
		"080008" + "0000e1f505e0cd01" + // last logon 0x01cde005f5e10000
		"080009" + "00a0bf5ed095e501" // creation 0x01e595d05ebfa000
	tb, err := hex.DecodeString(tail)
	if err != nil {
		return fmt.Errorf("refkeycred self-test vector: %v", err)
	}
	kid := sha256.Sum256(material)
	kh := sha256.Sum256(tb)
	raw := append([]byte{0, 2, 0, 0}, append(append(append([]byte{0x20, 0, 1}, kid[:]...), append([]byte{0x20, 0, 2}, kh[:]...)...), tb...)...)
	bl, err := Parse(raw)
	if err != nil {
		return fmt.Errorf("refkeycred self-test: %v", err)
	}
	if bl.Version != 0x200 || len(bl.Entries) != 9 {
		return fmt.Errorf("refkeycred self-test: version %x entries %d", bl.Version, len(bl.Entries))
	}
	for i, e := range bl.Entries {
		if int(e.Type) != i+1 {
			return fmt.Errorf("refkeycred self-test: entry %d has type %d", i, e.Type)
		}
	}
	if s, _ := bl.HashRegion(); s != 4+35+35 {
		return fmt.Errorf("refkeycred self-test: hash region starts at %d", s)
	}
	if h, _ := bl.ExpectedKeyHash(); !bytes.Equal(h, kh[:]) {
		return fmt.Errorf("refkeycred self-test: key hash")
	}
	mv, _ := bl.One(KeyMaterial)
	r, err := ParseRSA(mv)
	if err != nil {
		return fmt.Errorf("refkeycred self-test: %v", err)
	}
	if e, ok := r.ExponentValue(); r.Magic != "RSA1" || r.BitLength != 2048 || !ok || e != 65537 || !bytes.Equal(r.Modulus, []byte{0xc0, 0xde}) || len(r.Prime1)+len(r.Prime2) != 0 {
		return fmt.Errorf("refkeycred self-test: rsa %+v", r)
	}
	dv, _ := bl.One(DeviceId)
	if !bytes.Equal(dv, GUID(0x01020304, 0x0506, 0x0708, [8]byte{9, 10, 11, 12, 13, 14, 15, 16})) {
		return fmt.Errorf("refkeycred self-test: guid %x", dv)
	}
	// writer agrees with the hand-assembled bytes
	w := Build(0x200, [][2]any{{KeyID, kid[:]}, {KeyHash, kh[:]}, {KeyMaterial, material}, {KeyUsage, []byte{1}}, {KeySource, []byte{0}},
		{DeviceId, dv}, {CustomKeyInfo, []byte{1, 0}}, {LastLogon, raw[len(raw)-19 : len(raw)-11]}, {Creation, raw[len(raw)-8:]}})
	if !bytes.Equal(w, raw) {
		return fmt.Errorf("refkeycred self-test: writer/reader disagree\n%x\n%x", w, raw)
	}
	if _, err := Parse(raw[:len(raw)-1]); err == nil {
		return fmt.Errorf("refkeycred self-test: truncated blob accepted")
	}
	// DN-Binary: the repository's own sample and a DN with colons
	dn, bin, err := ParseDNBinary("B:10:48656c6c6f:CN=John Doe,OU=Users,DC=example,DC=com")
	if err != nil || dn != "CN=John Doe,OU=Users,DC=example,DC=com" || string(bin) != "Hello" {
		return fmt.Errorf("refkeycred self-test: DN-Binary sample: %q %q %v", dn, bin, err)
	}
	if s := FormatDNBinary("CN=a:b", []byte{0xAB}); s != "B:2:ab:CN=a:b" {
		return fmt.Errorf("refkeycred self-test: FormatDNBinary=%q", s)
	}
	if dn, bin, err := ParseDNBinary("B:2:AB:CN=a:b"); err != nil || dn != "CN=a:b" || !bytes.Equal(bin, []byte{0xAB}) {
		return fmt.Errorf("refkeycred self-test: DN with colon: %q %x %v", dn, bin, err)
	}
	return nil
}
