// Package refsmb is the independent SMB1 (MS-CIFS) reference used by the checks
// C03, C04 and C05: a reflective model of the command structures the library
// defines, a generator of internally consistent field assignments, and a
// little-endian encoder/decoder written from MS-CIFS 2.2.1-2.2.4 that shares no
// code with the library.
//
// The package never calls a Marshal/Unmarshal method of the library except in
// Universe() (factory calls + IsAndX + Init) and ForcedFormats() (documented there).
package refsmb

import (
	"fmt"
	"go/ast"
	"go/parser"
	"go/token"
	"os"
	"path/filepath"
	"reflect"
	"sort"
	"strings"

	"github.com/TheManticoreProject/Manticore/network/smb/smb_v10/message/commands"
	"github.com/TheManticoreProject/Manticore/network/smb/smb_v10/message/commands/codes"
	"github.com/TheManticoreProject/Manticore/network/smb/smb_v10/message/commands/command_interface"
)

// Kind classifies a struct field by the wire encoding MS-CIFS gives its type.
type Kind int

const (
	KInt       Kind = iota // UCHAR/USHORT/ULONG/… (any Go integer kind): little-endian, width = size of the type
	KFileTime              // FILETIME: dwLowDateTime, dwHighDateTime, both little-endian ULONG (8 bytes)
	KLargeInt              // LARGE_INTEGER: 64-bit little-endian
	KDate                  // SMB_DATE: packed little-endian word (year-1980)<<9 | month<<5 | day
	KFileAttr              // SMB_FILE_ATTRIBUTES: little-endian USHORT
	KNMPipe                // SMB_NMPIPE_STATUS: 16-bit field, ICount in the low byte, flags in the high byte
	KIntArray              // [N]integer: N little-endian elements
	KBytes                 // []UCHAR: raw bytes, length given by a relation
	KWords                 // []USHORT: little-endian words, count given by a relation
	KString                // SMB_STRING: buffer format byte + body (MS-CIFS 2.2.1.1) unless listed as bare
	KOEMString             // OEM_STRING: format 0x04 + bytes + NUL unless listed as bare
	KResumeKey             // SMB_RESUME_KEY carried as a variable block: 0x05, length 21, reserved, server state, client state
	KRange64s              // []LOCKING_ANDX_RANGE64 (20 bytes each)
	KDirInfos              // []SMB_DIRECTORY_INFORMATION (43 bytes each)
	KDialects              // dialects.Dialects: each dialect 0x02 name NUL
)

var kindNames = map[Kind]string{KInt: "int", KFileTime: "FILETIME", KLargeInt: "LARGE_INTEGER", KDate: "SMB_DATE", KFileAttr: "SMB_FILE_ATTRIBUTES",
	KNMPipe: "SMB_NMPIPE_STATUS", KIntArray: "int-array", KBytes: "bytes", KWords: "words", KString: "SMB_STRING", KOEMString: "OEM_STRING",
	KResumeKey: "SMB_RESUME_KEY", KRange64s: "LOCKING_ANDX_RANGE64[]", KDirInfos: "SMB_DIRECTORY_INFORMATION[]", KDialects: "Dialects"}

func (k Kind) String() string { return kindNames[k] }

// Section of the message a field belongs to.
type Section int

const (
	SecParams Section = iota
	SecData
)

func (s Section) String() string {
	if s == SecParams {
		return "params"
	}
	return "data"
}

// Field describes one exported field of a command structure.
type Field struct {
	Name    string
	Index   int // index in the Go struct
	Pos     int // index in Cmd.Fields
	Type    reflect.Type
	Kind    Kind
	Width   int // fixed wire width in bytes; -1 = variable
	Elem    int // element width for KInt (=Width), KIntArray
	N       int // element count for KIntArray
	Section Section
	Rel     *Rel // non-nil when the value is derived from other fields (count / offset / pad / constant)
}

// Fixed reports whether the field has a fixed width on the wire.
func (f *Field) Fixed() bool { return f.Width >= 0 }

// Cmd describes one command structure reachable from the factories.
type Cmd struct {
	Name   string // Go type name, e.g. "CloseRequest"
	Code   byte
	Reply  bool
	AndX   bool
	Type   reflect.Type // struct type
	Fields []*Field
	// Forced[i] is the buffer format the library's Marshal forces on string field i (0 = none).
	Forced []byte
}

// New returns a fresh, initialised instance from the library's factory.
func (c *Cmd) New() command_interface.CommandInterface {
	var ci command_interface.CommandInterface
	var err error
	if c.Reply {
		ci, err = commands.CreateResponseCommand(codes.CommandCode(c.Code))
	} else {
		ci, err = commands.CreateRequestCommand(codes.CommandCode(c.Code))
	}
	if err != nil {
		panic("refsmb: factory no longer knows " + c.Name)
	}
	ci.Init()
	return ci
}

func (c *Cmd) FieldByName(n string) *Field {
	for _, f := range c.Fields {
		if f.Name == n {
			return f
		}
	}
	return nil
}

// ParamFields / DataFields in declared order.
func (c *Cmd) SectionFields(s Section) []*Field {
	var out []*Field
	for _, f := range c.Fields {
		if f.Section == s {
			out = append(out, f)
		}
	}
	return out
}

// ParamWidth is the number of parameter bytes implied by the declared types (AndX block included);
// -1 if a parameter field is variable (Setup words).
func (c *Cmd) ParamWidth() (fixed int, variable bool) {
	if c.AndX {
		fixed = 4
	}
	for _, f := range c.SectionFields(SecParams) {
		if f.Fixed() {
			fixed += f.Width
		} else {
			variable = true
		}
	}
	return
}

// Universe is the set of command structures.
type Universe struct {
	Cmds []*Cmd
	// Defined holds the names of all struct types declared in package commands (from the source).
	Defined map[string]bool
	SrcDir  string
}

func (u *Universe) ByName(n string) *Cmd {
	for _, c := range u.Cmds {
		if c.Name == n {
			return c
		}
	}
	return nil
}

// RepoRoot returns the tree the check was built against.
func RepoRoot() string {
	if r := os.Getenv("VERIF_REPO"); r != "" {
		return r
	}
	return "/repo"
}

type srcStruct struct {
	sections map[string]Section // field name -> section
	order    []string
}

// parseSource reads the struct declarations of package commands: which fields are declared under the
// "// Parameters" marker and which under "// Data". This is the declared layout of the SMB block pair,
// independent of what Marshal/Unmarshal do.
func parseSource(dir string) (map[string]*srcStruct, error) {
	fset := token.NewFileSet()
	files, err := filepath.Glob(filepath.Join(dir, "*.go"))
	if err != nil {
		return nil, err
	}
	sort.Strings(files)
	out := map[string]*srcStruct{}
	for _, fn := range files {
		if strings.HasSuffix(fn, "_test.go") {
			continue
		}
		f, err := parser.ParseFile(fset, fn, nil, parser.ParseComments)
		if err != nil {
			return nil, err
		}
		for _, d := range f.Decls {
			gd, ok := d.(*ast.GenDecl)
			if !ok || gd.Tok != token.TYPE {
				continue
			}
			for _, sp := range gd.Specs {
				ts := sp.(*ast.TypeSpec)
				st, ok := ts.Type.(*ast.StructType)
				if !ok {
					continue
				}
				// section markers inside this struct
				type mark struct {
					pos token.Pos
					sec Section
				}
				var marks []mark
				for _, cg := range f.Comments {
					for _, cm := range cg.List {
						if cm.Pos() < st.Pos() || cm.Pos() > st.End() {
							continue
						}
						t := strings.TrimSpace(strings.TrimPrefix(cm.Text, "//"))
						switch t {
						case "Parameters":
							marks = append(marks, mark{cm.Pos(), SecParams})
						case "Data":
							marks = append(marks, mark{cm.Pos(), SecData})
						}
					}
				}
				ss := &srcStruct{sections: map[string]Section{}}
				for _, fl := range st.Fields.List {
					if len(fl.Names) == 0 {
						continue // embedded Command
					}
					sec := Section(-1)
					for _, m := range marks {
						if m.pos < fl.Pos() {
							sec = m.sec
						}
					}
					for _, n := range fl.Names {
						ss.sections[n.Name] = sec
						ss.order = append(ss.order, n.Name)
					}
				}
				out[ts.Name.Name] = ss
			}
		}
	}
	return out, nil
}

func classify(t reflect.Type) (k Kind, width, elem, n int, err error) {
	full := t.PkgPath() + "." + t.Name()
	switch {
	case strings.HasSuffix(full, "data_structures.FILETIME"):
		return KFileTime, 8, 4, 2, nil
	case strings.HasSuffix(full, "data_structures.LARGE_INTEGER"):
		return KLargeInt, 8, 8, 1, nil
	case strings.HasSuffix(full, "types.SMB_DATE"):
		return KDate, 2, 2, 1, nil
	case strings.HasSuffix(full, "types.SMB_FILE_ATTRIBUTES"):
		return KFileAttr, 2, 2, 1, nil
	case strings.HasSuffix(full, "types.SMB_NMPIPE_STATUS"):
		return KNMPipe, 2, 1, 2, nil
	case strings.HasSuffix(full, "types.SMB_STRING"):
		return KString, -1, 0, 0, nil
	case strings.HasSuffix(full, "types.OEM_STRING"):
		return KOEMString, -1, 0, 0, nil
	case strings.HasSuffix(full, "types.SMB_RESUME_KEY"):
		return KResumeKey, -1, 0, 0, nil
	case strings.HasSuffix(full, "dialects.Dialects"):
		return KDialects, -1, 0, 0, nil
	}
	switch t.Kind() {
	case reflect.Uint8, reflect.Int8, reflect.Uint16, reflect.Int16, reflect.Uint32, reflect.Int32, reflect.Uint64, reflect.Int64:
		w := int(t.Size())
		return KInt, w, w, 1, nil
	case reflect.Array:
		switch t.Elem().Kind() {
		case reflect.Uint8, reflect.Uint16, reflect.Uint32, reflect.Uint64:
			w := int(t.Elem().Size())
			return KIntArray, w * t.Len(), w, t.Len(), nil
		}
	case reflect.Slice:
		e := t.Elem()
		ef := e.PkgPath() + "." + e.Name()
		switch {
		case e.Kind() == reflect.Uint8:
			return KBytes, -1, 1, 0, nil
		case e.Kind() == reflect.Uint16:
			return KWords, -1, 2, 0, nil
		case strings.HasSuffix(ef, "types.LOCKING_ANDX_RANGE64"):
			return KRange64s, -1, 20, 0, nil
		case strings.HasSuffix(ef, "types.SMB_DIRECTORY_INFORMATION"):
			return KDirInfos, -1, 43, 0, nil
		}
	}
	return 0, 0, 0, 0, fmt.Errorf("field type %s has no MS-CIFS encoding in the reference model (model out of date)", t.String())
}

// LoadUniverse discovers every command structure reachable from the two factories (all 256 codes x
// request/response), classifies its fields by reflection, reads the parameter/data split from the struct
// declarations in the source tree and attaches the consistency relations. Anything the model does not
// know is an error ("model out of date"), never a silent pass.
func LoadUniverse() (*Universe, error) {
	dir := filepath.Join(RepoRoot(), "network/smb/smb_v10/message/commands")
	src, err := parseSource(dir)
	if err != nil {
		return nil, fmt.Errorf("cannot parse %s: %v", dir, err)
	}
	u := &Universe{Defined: map[string]bool{}, SrcDir: dir}
	for n := range src {
		u.Defined[n] = true
	}
	for rep := 0; rep < 2; rep++ {
		for code := 0; code < 256; code++ {
			var ci command_interface.CommandInterface
			var err error
			if rep == 1 {
				ci, err = commands.CreateResponseCommand(codes.CommandCode(code))
			} else {
				ci, err = commands.CreateRequestCommand(codes.CommandCode(code))
			}
			if err != nil || ci == nil {
				continue
			}
			t := reflect.TypeOf(ci).Elem()
			c := &Cmd{Name: t.Name(), Code: byte(code), Reply: rep == 1, AndX: ci.IsAndX(), Type: t}
			ss := src[t.Name()]
			if ss == nil {
				return nil, fmt.Errorf("struct %s not found in %s", t.Name(), dir)
			}
			for i := 0; i < t.NumField(); i++ {
				sf := t.Field(i)
				if sf.Anonymous {
					if sf.Type.Name() != "Command" {
						return nil, fmt.Errorf("%s: unexpected embedded field %s (model out of date)", t.Name(), sf.Name)
					}
					continue
				}
				if !sf.IsExported() {
					return nil, fmt.Errorf("%s: unexported field %s (model out of date)", t.Name(), sf.Name)
				}
				k, w, e, n, err := classify(sf.Type)
				if err != nil {
					return nil, fmt.Errorf("%s.%s: %v", t.Name(), sf.Name, err)
				}
				sec, ok := ss.sections[sf.Name]
				if !ok || sec < 0 {
					return nil, fmt.Errorf("%s.%s: not under a '// Parameters' or '// Data' marker in the source (model out of date)", t.Name(), sf.Name)
				}
				c.Fields = append(c.Fields, &Field{Name: sf.Name, Index: i, Pos: len(c.Fields), Type: sf.Type, Kind: k, Width: w, Elem: e, N: n, Section: sec})
			}
			// declared order must be parameters first, then data
			seenData := false
			for _, f := range c.Fields {
				if f.Section == SecData {
					seenData = true
				} else if seenData {
					return nil, fmt.Errorf("%s.%s: parameter field declared after a data field (model out of date)", c.Name, f.Name)
				}
			}
			if err := attachRelations(c); err != nil {
				return nil, err
			}
			c.Forced = make([]byte, len(c.Fields))
			u.Cmds = append(u.Cmds, c)
		}
	}
	// two factory rows returning the same type is a dispatch defect (C03 reports it); keep the universe
	// usable by giving the later occurrence a distinct, stable name
	seen := map[string]bool{}
	for _, c := range u.Cmds {
		if seen[c.Name] {
			c.Name = fmt.Sprintf("%s@%02x", c.Name, c.Code)
		}
		seen[c.Name] = true
	}
	return u, nil
}
