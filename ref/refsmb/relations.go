package refsmb

import (
	"fmt"
	"strings"
)

// Consistency relations between the fields of one command, written from MS-CIFS 2.2.4.x (the struct
// doc-comments in the library quote the same sections). "Internally consistent" in C04 means exactly:
// every relation below holds.

type RelKind int

const (
	// --- relations that derive an integer field
	RCount     RelKind = iota // field = number of bytes (KBytes) / elements (KWords, slices) of Of
	RStrLen                   // field = number of bytes in the Buffer of string field Of
	RDiv43                    // field = len(Buffer of Of) / 43 (number of SMB_Directory_Information entries carried in a blob)
	ROffset                   // field = offset from the first byte of the SMB header to the first byte of Of; unconstrained (free) while Of is empty
	RAtLeast                  // field >= value of field Of (Total*Count >= *Count); otherwise free
	RConst0                   // field must be 0: the structure has no member that could hold what the field counts
	RWordCount                // field mirrors the WordCount byte of the block itself (SMB_Parameters.WordCount); it occupies no parameter word
	// --- length sources of variable raw fields (what a decoder uses)
	RBy       // length given by integer field Of (bytes for KBytes, elements otherwise)
	RRest     // extends to the end of the data block
	RPad      // padding in front of Of: any length is consistent (offsets are computed from the real layout); the default aligns Of to Align bytes from the header start when Of is non-empty
	REmpty    // must be empty (padding that exists only when strings are Unicode; the model uses OEM strings)
	ROptional // optional trailing parameter field (MS-CIFS: "this field is optional", two legal WordCounts): it must be on the wire when it is non-zero, it may be left out when it is zero; the reference leaves it out
	RZStr16   // NUL-terminated UTF-16 string: the field holds the characters (even length, no 0x0000 code unit), the wire adds the 2-byte terminator
)

type Rel struct {
	Kind  RelKind
	Of    string
	Align int
}

func (r *Rel) Derived() bool {
	switch r.Kind {
	case RCount, RStrLen, RDiv43, RConst0, REmpty, RWordCount:
		return true
	}
	return false
}

func parseRel(s string) (Rel, error) {
	p := strings.Split(s, ":")
	arg := func(i int) string {
		if i < len(p) {
			return p[i]
		}
		return ""
	}
	switch p[0] {
	case "count":
		return Rel{Kind: RCount, Of: arg(1)}, nil
	case "strlen":
		return Rel{Kind: RStrLen, Of: arg(1)}, nil
	case "div43":
		return Rel{Kind: RDiv43, Of: arg(1)}, nil
	case "offset":
		return Rel{Kind: ROffset, Of: arg(1)}, nil
	case "atleast":
		return Rel{Kind: RAtLeast, Of: arg(1)}, nil
	case "const0":
		return Rel{Kind: RConst0}, nil
	case "wordcount":
		return Rel{Kind: RWordCount}, nil
	case "by":
		return Rel{Kind: RBy, Of: arg(1)}, nil
	case "rest":
		return Rel{Kind: RRest}, nil
	case "pad":
		a := 1
		fmt.Sscanf(arg(2), "%d", &a)
		return Rel{Kind: RPad, Of: arg(1), Align: a}, nil
	case "empty":
		return Rel{Kind: REmpty}, nil
	case "zstr16":
		return Rel{Kind: RZStr16}, nil
	case "optional":
		return Rel{Kind: ROptional}, nil
	}
	return Rel{}, fmt.Errorf("bad relation %q", s)
}

// trans is the relation set shared by the transaction family.
func trans(params, data string, setup string) map[string]string {
	m := map[string]string{
		"TotalParameterCount": "atleast:ParameterCount", "TotalDataCount": "atleast:DataCount",
		"ParameterCount": "count:" + params, "ParameterOffset": "offset:" + params,
		"DataCount": "count:" + data, "DataOffset": "offset:" + data,
		"Pad1": "pad:" + params + ":4", params: "by:ParameterCount",
		"Pad2": "pad:" + data + ":4", data: "by:DataCount",
	}
	switch setup {
	case "":
	case "none":
		m["SetupCount"] = "const0"
	default:
		m["SetupCount"] = "count:" + setup
		m[setup] = "by:SetupCount"
	}
	return m
}

var relTable = map[string]map[string]string{
	"WriteRawRequest": {"CountOfBytes": "atleast:DataLength", "DataLength": "count:Data", "DataOffset": "offset:Data", "Pad": "pad:Data:1", "Data": "by:DataLength", "OffsetHigh": "optional"},
	"ReadRawRequest":  {"OffsetHigh": "optional"},
	"WriteMpxRequest": {"TotalByteCount": "atleast:DataLength", "DataLength": "count:Buffer", "DataOffset": "offset:Buffer", "Pad": "pad:Buffer:1", "Buffer": "by:DataLength"},
	"LockingAndxRequest": {"NumberOfRequestedUnlocks": "count:Unlocks", "NumberOfRequestedLocks": "count:Locks",
		"Unlocks": "by:NumberOfRequestedUnlocks", "Locks": "by:NumberOfRequestedLocks"},
	"TransactionRequest":           trans("Trans_Parameters", "Trans_Data", "Setup"),
	"TransactionSecondaryRequest":  trans("Trans2_Parameters", "Trans2_Data", ""),
	"IoctlRequest":                 trans("Parameters", "Data", ""),
	"IoctlResponse":                trans("Parameters", "Data", ""),
	"Transaction2Request":          trans("Trans2_Parameters", "Trans2_Data", "none"),
	"Transaction2SecondaryRequest": trans("Trans2_Parameters", "Trans2_Data", ""),
	"NtTransactRequest":            trans("NT_Trans_Parameters", "NT_Trans_Data", "none"),
	"NtTransactSecondaryRequest":   trans("NT_Trans_Parameters", "NT_Trans_Data", ""),
	"EchoRequest":                  {"Data": "rest"},
	"EchoResponse":                 {"Data": "rest"},
	"WriteAndCloseRequest":         {"CountOfBytesToWrite": "count:Data", "Data": "by:CountOfBytesToWrite", "Reserved": "optional"},
	"WriteAndxRequest":             {"DataLength": "count:Data", "DataOffset": "offset:Data", "Data": "by:DataLength", "OffsetHigh": "optional"},
	"ReadAndxResponse":             {"DataLength": "const0"},
	"SessionSetupAndxRequest": {"OEMPasswordLen": "count:OEMPassword", "UnicodePasswordLen": "count:UnicodePassword",
		"OEMPassword": "by:OEMPasswordLen", "UnicodePassword": "by:UnicodePasswordLen", "Pad": "empty"},
	"SessionSetupAndxResponse": {"Pad": "empty"},
	"TreeConnectAndxRequest":   {"PasswordLength": "count:Password", "Password": "by:PasswordLength", "Pad": "empty"},
	"ReadMpxResponse":          {"DataLength": "count:Data", "DataOffset": "offset:Data", "Pad": "pad:Data:1", "Data": "by:DataLength"},
	"NegotiateResponse":        {"ChallengeLength": "count:Challenge", "Challenge": "by:ChallengeLength", "DomainName": "zstr16", "ServerName": "zstr16"},
	"FindResponse":             {"Count": "count:DirectoryInformationData", "DirectoryInformationData": "by:Count"},
	"FindUniqueResponse":       {"Count": "count:DirectoryInformationData", "DirectoryInformationData": "by:Count"},
	"SearchResponse":           {"Count": "div43:SMB_Directory_Information"},
	"FindCloseResponse":        {"Count": "div43:DirectoryInformationData"},
	"NegotiateRequest":         {"WordCount": "wordcount"},
	"NtCreateAndxRequest":      {"NameLength": "strlen:FileName"},
	"WriteRequest":             {"CountOfBytesToWrite": "strlen:Data"},
	"WriteAndUnlockRequest":    {"CountOfBytesToWrite": "strlen:Data"},
	"ReadResponse":             {"CountOfBytesReturned": "strlen:Bytes"},
	"LockAndReadResponse":      {"CountOfBytesReturned": "strlen:BytesRead"},
}

// Strings that MS-CIFS carries WITHOUT a buffer-format byte (plain NUL-terminated SMB_STRING in the data
// block of the LAN Manager / NT LM commands). Every other SMB_STRING / OEM_STRING field is a
// buffer-format string of MS-CIFS 2.2.1.1.
var bareStrings = map[string]bool{
	"SessionSetupAndxRequest.AccountName": true, "SessionSetupAndxRequest.PrimaryDomain": true,
	"SessionSetupAndxRequest.NativeOS": true, "SessionSetupAndxRequest.NativeLanMan": true,
	"SessionSetupAndxResponse.NativeOS": true, "SessionSetupAndxResponse.NativeLanMan": true, "SessionSetupAndxResponse.PrimaryDomain": true,
	"TreeConnectAndxRequest.Path": true, "TreeConnectAndxRequest.Service": true,
	"TreeConnectAndxResponse.Service": true, "TreeConnectAndxResponse.NativeFileSystem": true,
	"NtCreateAndxRequest.FileName": true, "OpenAndxRequest.FileName": true,
	"TransactionRequest.Name": true,
}

// IsBare reports whether MS-CIFS carries string field f of command c without a format byte.
func (c *Cmd) IsBare(f *Field) bool { return bareStrings[baseName(c.Name)+"."+f.Name] }

func baseName(n string) string {
	if i := strings.IndexByte(n, '@'); i >= 0 {
		return n[:i]
	}
	return n
}

func attachRelations(c *Cmd) error {
	tab := relTable[c.Name]
	for fn, spec := range tab {
		f := c.FieldByName(fn)
		if f == nil {
			return fmt.Errorf("relations: %s has no field %s any more (model out of date)", c.Name, fn)
		}
		r, err := parseRel(spec)
		if err != nil {
			return err
		}
		if r.Of != "" && c.FieldByName(r.Of) == nil {
			return fmt.Errorf("relations: %s.%s refers to missing field %s (model out of date)", c.Name, fn, r.Of)
		}
		rr := r
		f.Rel = &rr
		if r.Kind == RWordCount {
			f.Width = 0
		}
	}
	for _, f := range c.Fields {
		switch f.Kind {
		case KBytes, KWords, KRange64s, KDirInfos:
			if f.Rel == nil {
				return fmt.Errorf("relations: %s.%s is a variable-length raw field and the model does not know what delimits it (model out of date)", c.Name, f.Name)
			}
			switch f.Rel.Kind {
			case RBy, RRest, RPad, REmpty, RZStr16:
			default:
				return fmt.Errorf("relations: %s.%s needs a length source", c.Name, f.Name)
			}
		}
	}
	for i, f := range c.Fields {
		if f.Rel != nil && f.Rel.Kind == ROptional {
			if f.Section != SecParams || !f.Fixed() {
				return fmt.Errorf("relations: optional field %s.%s must be a fixed-width parameter", c.Name, f.Name)
			}
			for _, g := range c.Fields[i+1:] {
				if g.Section == SecParams {
					return fmt.Errorf("relations: optional field %s.%s is not the last parameter any more (model out of date)", c.Name, f.Name)
				}
			}
		}
	}
	for k := range bareStrings {
		if strings.HasPrefix(k, c.Name+".") {
			f := c.FieldByName(k[len(c.Name)+1:])
			if f == nil || (f.Kind != KString && f.Kind != KOEMString) {
				return fmt.Errorf("relations: bare string %s is not a string field any more (model out of date)", k)
			}
		}
	}
	return nil
}
