package refsmb

import (
	"fmt"
	"reflect"
	"strings"

	"github.com/TheManticoreProject/Manticore/network/smb/smb_v10/message/commands/command_interface"
)

// ---------------------------------------------------------------- little-endian primitives (own code, no encoding/binary)

func le(v uint64, w int) []byte {
	b := make([]byte, w)
	for i := 0; i < w; i++ {
		b[i] = byte(v >> (8 * uint(i)))
	}
	return b
}

func unle(b []byte) uint64 {
	var v uint64
	for i := len(b) - 1; i >= 0; i-- {
		v = v<<8 | uint64(b[i])
	}
	return v
}

func bits(v reflect.Value) uint64 {
	switch v.Kind() {
	case reflect.Int8, reflect.Int16, reflect.Int32, reflect.Int64, reflect.Int:
		return uint64(v.Int())
	}
	return v.Uint()
}

func setBits(v reflect.Value, x uint64) {
	switch v.Kind() {
	case reflect.Int8:
		v.SetInt(int64(int8(x)))
	case reflect.Int16:
		v.SetInt(int64(int16(x)))
	case reflect.Int32:
		v.SetInt(int64(int32(x)))
	case reflect.Int64, reflect.Int:
		v.SetInt(int64(x))
	default:
		v.SetUint(x)
	}
}

// SpecFormat is the buffer format MS-CIFS prescribes for a buffer-format string field, decided from what the
// field carries: path/file/directory names, passwords, service names and print identifiers are 0x04
// (NUL-terminated string), data blocks are 0x01, resume keys and directory-information blobs are 0x05
// (variable block). 0 = the model does not know the field.
func SpecFormat(f *Field) byte {
	n := f.Name
	switch {
	case f.Kind == KOEMString:
		return 4
	case f.Kind == KResumeKey:
		return 5
	case n == "ResumeKey", strings.Contains(n, "Directory_Information"), n == "DirectoryInformationData":
		return 5
	case strings.HasSuffix(n, "FileName"), strings.HasSuffix(n, "DirectoryName"), n == "Path", n == "Identifier",
		n == "Password", n == "Service", n == "Name", n == "AccountName", n == "PrimaryDomain", n == "NativeOS",
		n == "NativeLanMan", n == "NativeFileSystem":
		return 4
	case n == "Data", n == "Bytes", n == "BytesRead":
		return 1
	}
	return 0
}

// EncodeString is MS-CIFS 2.2.1.1: 0x01 data block and 0x05 variable block carry a little-endian
// 16-bit length; 0x02 dialect, 0x03 pathname and 0x04 ASCII are NUL-terminated.
func EncodeString(format byte, buf []byte) ([]byte, error) {
	switch format {
	case 1, 5:
		if len(buf) > 0xFFFF {
			return nil, fmt.Errorf("string too long")
		}
		return append(append([]byte{format}, le(uint64(len(buf)), 2)...), buf...), nil
	case 2, 3, 4:
		for _, b := range buf {
			if b == 0 {
				return nil, fmt.Errorf("NUL inside a NUL-terminated string")
			}
		}
		return append(append([]byte{format}, buf...), 0), nil
	}
	return nil, fmt.Errorf("buffer format %#x is not defined by MS-CIFS 2.2.1.1", format)
}

// DecodeString is the inverse; returns format, buffer and the number of bytes consumed.
func DecodeString(b []byte) (format byte, buf []byte, n int, err error) {
	if len(b) < 1 {
		return 0, nil, 0, fmt.Errorf("no buffer format byte")
	}
	format = b[0]
	switch format {
	case 1, 5:
		if len(b) < 3 {
			return 0, nil, 0, fmt.Errorf("short length")
		}
		l := int(unle(b[1:3]))
		if len(b) < 3+l {
			return 0, nil, 0, fmt.Errorf("block shorter than its length")
		}
		return format, append([]byte{}, b[3:3+l]...), 3 + l, nil
	case 2, 3, 4:
		for i := 1; i < len(b); i++ {
			if b[i] == 0 {
				return format, append([]byte{}, b[1:i]...), i + 1, nil
			}
		}
		return 0, nil, 0, fmt.Errorf("no terminator")
	}
	return 0, nil, 0, fmt.Errorf("buffer format %#x undefined", format)
}

func smbString(v reflect.Value) (format byte, buf []byte) {
	// v is types.SMB_STRING
	return byte(v.FieldByName("BufferFormat").Uint()), v.FieldByName("Buffer").Bytes()
}

func resumeKeyRaw(v reflect.Value) []byte {
	out := []byte{byte(v.FieldByName("Reserved").Uint())}
	ss := v.FieldByName("ServerState")
	for i := 0; i < ss.Len(); i++ {
		out = append(out, byte(ss.Index(i).Uint()))
	}
	cs := v.FieldByName("ClientState")
	for i := 0; i < cs.Len(); i++ {
		out = append(out, byte(cs.Index(i).Uint()))
	}
	return out
}

func encodeDate(v reflect.Value) ([]byte, error) {
	y, m, d := v.FieldByName("Year").Uint(), v.FieldByName("Month").Uint(), v.FieldByName("Day").Uint()
	if y < 1980 || y > 1980+127 || m > 15 || d > 31 {
		return nil, fmt.Errorf("SMB_DATE %d-%d-%d is not representable", y, m, d)
	}
	return le((y-1980)<<9|m<<5|d, 2), nil
}

func encodeFiletime(v reflect.Value) []byte {
	return append(le(v.FieldByName("DwLowDateTime").Uint(), 4), le(v.FieldByName("DwHighDateTime").Uint(), 4)...)
}

// EncodeDirInfo is SMB_Directory_Information (MS-CIFS 2.2.4.58.2), 43 bytes: 21-byte resume key, attributes,
// SMB_TIME, SMB_DATE, little-endian size, 13-byte 8.3 name (space padded to 12, NUL). The library types the
// time as a FILETIME; the reference can only carry 16 bits of it (low word of dwLowDateTime).
func EncodeDirInfo(v reflect.Value) ([]byte, error) {
	out := resumeKeyRaw(v.FieldByName("ResumeKey"))
	out = append(out, byte(v.FieldByName("FileAttributes").Uint()))
	out = append(out, le(v.FieldByName("LastWriteTime").FieldByName("DwLowDateTime").Uint()&0xFFFF, 2)...)
	d, err := encodeDate(v.FieldByName("LastWriteDate"))
	if err != nil {
		return nil, err
	}
	out = append(out, d...)
	out = append(out, le(v.FieldByName("FileSize").Uint(), 4)...)
	_, name := smbString(v.FieldByName("FileName").FieldByName("SMB_STRING"))
	if len(name) > 12 {
		return nil, fmt.Errorf("8.3 name longer than 12")
	}
	nb := append([]byte{}, name...)
	for len(nb) < 12 {
		nb = append(nb, ' ')
	}
	out = append(out, nb...)
	out = append(out, 0)
	return out, nil
}

// Slot locates one field (or a pseudo field of the AndX block) inside its block.
type Slot struct {
	F      *Field
	Pseudo string // "andx.Command", "andx.Reserved", "andx.Offset" when F == nil
	Sec    Section
	Off    int
	Len    int
}

func (s Slot) Name() string {
	if s.F != nil {
		return s.F.Name
	}
	return s.Pseudo
}

// Layout is the reference encoding of one command block pair.
type Layout struct {
	Words []byte
	Data  []byte
	Slots []Slot
	// Odd is set when the declared parameter fields add up to an odd number of bytes: no WordCount can
	// describe such a block, the structure has no MS-CIFS encoding (reported by the width obligations).
	Odd bool
}

// Bytes is WordCount | Words | ByteCount (little-endian) | Bytes  (MS-CIFS 2.2.3.2, 2.2.3.3).
func (l *Layout) Bytes() []byte {
	out := []byte{byte((len(l.Words) + 1) / 2)}
	out = append(out, l.Words...)
	if l.Odd {
		out = append(out, 0)
	}
	out = append(out, le(uint64(len(l.Data)), 2)...)
	return append(out, l.Data...)
}

func (l *Layout) SlotOf(f *Field) *Slot {
	for i := range l.Slots {
		if l.Slots[i].F == f {
			return &l.Slots[i]
		}
	}
	return nil
}

// AbsOffset is the offset of a data-block position from the first byte of the SMB header.
func (l *Layout) AbsOffset(dataOff int) int { return 32 + 1 + len(l.Words) + 2 + dataOff }

// EncodeField is the MS-CIFS encoding of one field value.
func (c *Cmd) EncodeField(f *Field, v reflect.Value) ([]byte, error) {
	if f.Rel != nil && f.Rel.Kind == RWordCount {
		return nil, nil
	}
	switch f.Kind {
	case KInt:
		return le(bits(v), f.Width), nil
	case KFileTime:
		return encodeFiletime(v), nil
	case KLargeInt:
		return le(v.FieldByName("QuadPart").Uint(), 8), nil
	case KDate:
		return encodeDate(v)
	case KFileAttr:
		return le(v.FieldByName("Attributes").Uint(), 2), nil
	case KNMPipe:
		return []byte{byte(v.FieldByName("ICount").Uint()), byte(v.FieldByName("Flags").Uint())}, nil
	case KIntArray:
		var out []byte
		for i := 0; i < v.Len(); i++ {
			out = append(out, le(v.Index(i).Uint(), f.Elem)...)
		}
		return out, nil
	case KBytes:
		b := append([]byte{}, v.Bytes()...)
		if f.Rel != nil && f.Rel.Kind == RZStr16 {
			if len(b)%2 != 0 {
				return nil, fmt.Errorf("odd UTF-16 string")
			}
			for i := 0; i+1 < len(b); i += 2 {
				if b[i] == 0 && b[i+1] == 0 {
					return nil, fmt.Errorf("NUL code unit inside a NUL-terminated UTF-16 string")
				}
			}
			b = append(b, 0, 0)
		}
		return b, nil
	case KWords:
		var out []byte
		for i := 0; i < v.Len(); i++ {
			out = append(out, le(v.Index(i).Uint(), 2)...)
		}
		return out, nil
	case KString, KOEMString:
		sv := v
		if f.Kind == KOEMString {
			sv = v.FieldByName("SMB_STRING")
		}
		format, buf := smbString(sv)
		if c.IsBare(f) {
			for _, b := range buf {
				if b == 0 {
					return nil, fmt.Errorf("NUL inside a NUL-terminated string")
				}
			}
			return append(append([]byte{}, buf...), 0), nil
		}
		if f.Kind == KOEMString {
			format = 4
		}
		return EncodeString(format, buf)
	case KResumeKey:
		return EncodeString(5, resumeKeyRaw(v))
	case KRange64s:
		var out []byte
		for i := 0; i < v.Len(); i++ {
			e := v.Index(i)
			out = append(out, le(e.FieldByName("PID").Uint(), 2)...)
			out = append(out, le(e.FieldByName("Pad").Uint(), 2)...)
			out = append(out, le(e.FieldByName("ByteOffsetHigh").Uint(), 4)...)
			out = append(out, le(e.FieldByName("ByteOffsetLow").Uint(), 4)...)
			out = append(out, le(e.FieldByName("LengthInBytesHigh").Uint(), 4)...)
			out = append(out, le(e.FieldByName("LengthInBytesLow").Uint(), 4)...)
		}
		return out, nil
	case KDirInfos:
		var body []byte
		for i := 0; i < v.Len(); i++ {
			e, err := EncodeDirInfo(v.Index(i))
			if err != nil {
				return nil, err
			}
			body = append(body, e...)
		}
		return EncodeString(5, body)
	case KDialects:
		var out []byte
		ds := v.FieldByName("Dialects")
		for i := 0; i < ds.Len(); i++ {
			e, err := EncodeString(2, []byte(ds.Index(i).String()))
			if err != nil {
				return nil, err
			}
			out = append(out, e...)
		}
		return out, nil
	}
	return nil, fmt.Errorf("no encoder for kind %v", f.Kind)
}

// Encode is the reference encoding of a command instance (only its exported fields and its AndX block are read).
// A zero-valued optional trailing parameter is left out.
func (c *Cmd) Encode(inst command_interface.CommandInterface) (*Layout, error) {
	return c.EncodeOpt(inst, false)
}

func allZero(b []byte) bool {
	for _, x := range b {
		if x != 0 {
			return false
		}
	}
	return true
}

// EncodeOpt is Encode; withOptional=true keeps a zero-valued optional parameter on the wire (the other
// legal encoding).
func (c *Cmd) EncodeOpt(inst command_interface.CommandInterface, withOptional bool) (*Layout, error) {
	sv := reflect.ValueOf(inst).Elem()
	l := &Layout{}
	if c.AndX {
		cmd, res, off := byte(0xFF), byte(0), uint16(0)
		if a := inst.GetAndX(); a != nil {
			cmd, res, off = byte(a.AndXCommand), a.AndXReserved, a.AndXOffset
		}
		l.Slots = append(l.Slots, Slot{Pseudo: "andx.Command", Sec: SecParams, Off: 0, Len: 1},
			Slot{Pseudo: "andx.Reserved", Sec: SecParams, Off: 1, Len: 1}, Slot{Pseudo: "andx.Offset", Sec: SecParams, Off: 2, Len: 2})
		l.Words = append(l.Words, cmd, res)
		l.Words = append(l.Words, le(uint64(off), 2)...)
	}
	for _, f := range c.Fields {
		b, err := c.EncodeField(f, sv.Field(f.Index))
		if err != nil {
			return nil, fmt.Errorf("%s.%s: %v", c.Name, f.Name, err)
		}
		if f.Fixed() && len(b) != f.Width {
			return nil, fmt.Errorf("%s.%s: reference produced %d bytes for a %d-byte field", c.Name, f.Name, len(b), f.Width)
		}
		if f.Rel != nil && f.Rel.Kind == ROptional && !withOptional && allZero(b) {
			l.Slots = append(l.Slots, Slot{F: f, Sec: SecParams, Off: len(l.Words), Len: 0})
			continue
		}
		if f.Section == SecParams {
			l.Slots = append(l.Slots, Slot{F: f, Sec: SecParams, Off: len(l.Words), Len: len(b)})
			l.Words = append(l.Words, b...)
		} else {
			l.Slots = append(l.Slots, Slot{F: f, Sec: SecData, Off: len(l.Data), Len: len(b)})
			l.Data = append(l.Data, b...)
		}
	}
	l.Odd = len(l.Words)%2 != 0
	if len(l.Words) > 510 || len(l.Data) > 0xFFFF {
		return nil, fmt.Errorf("%s: block exceeds the 255-word / 65535-byte limits", c.Name)
	}
	return l, nil
}

// ---------------------------------------------------------------- framing of a marshalled block pair

// Frame splits WordCount|Words|ByteCount|Bytes; ok=false when the counts do not describe the buffer exactly.
type Frame struct {
	WC    int
	Words []byte
	BC    int
	Data  []byte
	Extra int // bytes after the data block (must be 0)
}

func ParseFrame(b []byte) (fr Frame, err error) {
	if len(b) < 1 {
		return fr, fmt.Errorf("empty")
	}
	fr.WC = int(b[0])
	if len(b) < 1+2*fr.WC+2 {
		return fr, fmt.Errorf("WordCount %d needs %d bytes before ByteCount, have %d", fr.WC, 1+2*fr.WC+2, len(b))
	}
	fr.Words = b[1 : 1+2*fr.WC]
	fr.BC = int(unle(b[1+2*fr.WC : 3+2*fr.WC]))
	rest := b[3+2*fr.WC:]
	if len(rest) < fr.BC {
		return fr, fmt.Errorf("ByteCount %d but only %d bytes follow", fr.BC, len(rest))
	}
	fr.Data = rest[:fr.BC]
	fr.Extra = len(rest) - fr.BC
	if fr.Extra != 0 {
		return fr, fmt.Errorf("ByteCount %d but %d bytes follow (%d trailing)", fr.BC, len(rest), fr.Extra)
	}
	return fr, nil
}
