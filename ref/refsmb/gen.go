package refsmb

import (
	"fmt"
	"reflect"
	"strings"
	"sync"

	"github.com/TheManticoreProject/Manticore/network/smb/smb_v10/message/commands/command_interface"

	"verif/enum"
)

// Choice is one lattice value of a field: Set writes a freshly allocated value into the (addressable) field.
type Choice struct {
	Label string
	Set   func(v reflect.Value)
}

func counter(n int, start byte) []byte { return enum.Counter(n, start) }

func noNUL(n int, start byte) []byte {
	b := make([]byte, n)
	x := start
	for i := range b {
		if x == 0 {
			x = 1
		}
		b[i] = x
		x++
	}
	return b
}

func setStr(format byte, buf []byte) func(v reflect.Value) {
	return func(v reflect.Value) { setString(v, format, buf) }
}

func setOEM(buf []byte) func(v reflect.Value) {
	return func(v reflect.Value) { setString(v.FieldByName("SMB_STRING"), 4, buf) }
}

func setFiletime(lo, hi uint32) func(v reflect.Value) {
	return func(v reflect.Value) {
		v.FieldByName("DwLowDateTime").SetUint(uint64(lo))
		v.FieldByName("DwHighDateTime").SetUint(uint64(hi))
	}
}

func setDate(y, m, d int) func(v reflect.Value) {
	return func(v reflect.Value) {
		v.FieldByName("Year").SetUint(uint64(y))
		v.FieldByName("Month").SetUint(uint64(m))
		v.FieldByName("Day").SetUint(uint64(d))
	}
}

func fillDirInfo(e reflect.Value, seed byte, name string) {
	raw := counter(21, seed)
	setResumeKeyRaw(e.FieldByName("ResumeKey"), raw)
	e.FieldByName("FileAttributes").SetUint(uint64(seed + 0x20))
	setFiletime(0x01020304+uint32(seed), 0x05060708)(e.FieldByName("LastWriteTime"))
	setDate(1999, 12, 31)(e.FieldByName("LastWriteDate"))
	e.FieldByName("FileSize").SetUint(0x0A0B0C0D + uint64(seed))
	setString(e.FieldByName("FileName").FieldByName("SMB_STRING"), 4, []byte(name))
}

var dialectNames = []string{"NT LM 0.12", "PC NETWORK PROGRAM 1.0", "LANMAN1.0", "LM1.2X002"}

// maxCount is the largest element count the count field of a counted buffer can express.
func (c *Cmd) maxCount(f *Field) int {
	if f.Rel != nil && f.Rel.Kind == RBy {
		w := c.FieldByName(f.Rel.Of).Width
		if w == 1 {
			return 255
		}
	}
	return 1 << 20
}

// Lattice returns the non-default values of field f, simplest first. The first two are the "reduced"
// lattice used for pairs. Integer lattices are the byte-distinct values of the width (so byte order, width
// and offset slips are all visible) plus all-ones; byte strings have lengths 1..4, 255 and 256 with counter
// content; strings use the format MS-CIFS prescribes for the field.
func (c *Cmd) Lattice(f *Field, thorough bool) []Choice {
	var out []Choice
	add := func(l string, s func(v reflect.Value)) { out = append(out, Choice{l, s}) }
	switch f.Kind {
	case KInt:
		vals := append([]uint64{}, enum.ByteDistinct(f.Width)...)
		vals = append(vals, ^uint64(0)>>(64-8*uint(f.Width)))
		if thorough {
			for _, p := range enum.Pow2(8 * f.Width) {
				vals = append(vals, p)
			}
		}
		// zero last: a no-op from the all-default base, but a value of its own from the all-non-default base and
		// wherever a constructor presets something else ("0 means unset" slips)
		vals = append(vals, 0)
		seen := map[uint64]bool{}
		for _, x := range vals {
			if seen[x] {
				continue
			}
			seen[x] = true
			x := x
			add(fmt.Sprintf("%#x", x), func(v reflect.Value) { setBits(v, x) })
		}
	case KFileTime:
		for _, p := range [][2]uint32{{0x01020304, 0x05060708}, {0xFEFDFCFB, 0xFAF9F8F7}, {0xFFFFFFFF, 0}, {0, 0x80000000}, {0xD53E8000, 0x019DB1DE}, {0xFFFFFFFF, 0xFFFFFFFF}, {0xFFFFFFFF, 0x7FFFFFFF}} { // the last two: the "not specified" and the "never" sentinels, values like any other to a codec
			add(fmt.Sprintf("ft(%#x,%#x)", p[0], p[1]), setFiletime(p[0], p[1]))
		}
	case KLargeInt:
		for _, x := range enum.ByteDistinct(8) {
			x := x
			add(fmt.Sprintf("%#x", x), func(v reflect.Value) { v.FieldByName("QuadPart").SetUint(x) })
		}
	case KDate:
		for _, d := range [][3]int{{2107, 12, 31}, {1999, 12, 31}, {2000, 2, 29}, {1980, 1, 2}, {1981, 1, 1}} {
			add(fmt.Sprintf("%d-%d-%d", d[0], d[1], d[2]), setDate(d[0], d[1], d[2]))
		}
	case KFileAttr:
		for _, x := range enum.ByteDistinct(2) {
			x := x
			add(fmt.Sprintf("%#x", x), func(v reflect.Value) { v.FieldByName("Attributes").SetUint(x) })
		}
	case KNMPipe:
		for _, p := range [][2]byte{{0x01, 0x80}, {0xFE, 0x43}, {0xFF, 0xFF}, {0x80, 0x01}} {
			p := p
			add(fmt.Sprintf("icount=%#x,flags=%#x", p[0], p[1]), func(v reflect.Value) {
				v.FieldByName("ICount").SetUint(uint64(p[0]))
				v.FieldByName("Flags").SetUint(uint64(p[1]))
			})
		}
	case KIntArray:
		for _, start := range []byte{0x01, 0xF0} {
			start := start
			add(fmt.Sprintf("counter@%#x", start), func(v reflect.Value) {
				b := counter(f.Width, start)
				for i := 0; i < f.N; i++ {
					v.Index(i).SetUint(unle(b[i*f.Elem : (i+1)*f.Elem]))
				}
			})
		}
		add("all-ff", func(v reflect.Value) {
			for i := 0; i < f.N; i++ {
				v.Index(i).SetUint(^uint64(0) >> (64 - 8*uint(f.Elem)))
			}
		})
	case KBytes:
		switch f.Rel.Kind {
		case RPad:
			for n := 1; n <= 3; n++ {
				n := n
				add(fmt.Sprintf("pad%d", n), func(v reflect.Value) { v.SetBytes(make([]byte, n)) })
			}
			// padding is a field like any other to the codec: its bytes are the caller's and come back as sent
			add("pad2:a55a", func(v reflect.Value) { v.SetBytes([]byte{0xA5, 0x5A}) })
		case RZStr16:
			// UTF-16LE names. Besides plain ASCII: code units with a zero LOW byte (U+0100 "Ā", U+0400 "Ѐ") next to
			// units with a zero HIGH byte, so that the byte pair 00 00 occurs at an odd offset inside the string
			// ("aĀb" = 61 00 | 00 01 | 62 00) - a decoder that looks for two zero bytes instead of a zero code unit
			// cuts such a name; a surrogate pair; a high-half unit.
			for _, s := range []string{
				"A\x00",                    // "A"
				"\x00\x01",                 // "Ā"
				"a\x00\x00\x01b\x00",       // "aĀb"  (index 2: the value of the all-non-default base)
				"a\x00\x00\x01",            // "aĀ"
				"\x00\x01\x00\x01",         // "ĀĀ"
				"a\x00b\x00\x00\x04c\x00",  // "abЀc"
				"\x01\xd8\x00\xdc",         // U+10400 (surrogate pair D801 DC00)
				"D\x00O\x00M\x00",          // "DOM"
				"\xe9\x00\x3d\xd8\x00\xde", // "é" + U+1F600
				"W\x00O\x00R\x00K\x00G\x00R\x00O\x00U\x00P\x00", // "WORKGROUP"
			} {
				s := s
				add(fmt.Sprintf("utf16:%x", s), func(v reflect.Value) { v.SetBytes([]byte(s)) })
			}
		case REmpty:
		default:
			vals := [][]byte{{0x41}, {0x80, 0xFF}, {0x41, 0x80, 0xFF}, counter(4, 1), counter(255, 1), counter(256, 0)}
			if thorough {
				vals = append(vals, counter(8, 0xF8), counter(1024, 3))
			}
			for _, b := range vals {
				if len(b) > c.maxCount(f) {
					continue
				}
				b := b
				add(fmt.Sprintf("bytes[%d]", len(b)), func(v reflect.Value) { v.SetBytes(append([]byte{}, b...)) })
			}
		}
	case KWords:
		for _, ws := range [][]uint16{{0x0102}, {0x0102, 0xFEFD}, {0x00FF, 0xFF00, 0x8001}} {
			ws := ws
			add(fmt.Sprintf("words%x", ws), func(v reflect.Value) {
				s := reflect.MakeSlice(f.Type, len(ws), len(ws))
				for i, w := range ws {
					s.Index(i).SetUint(uint64(w))
				}
				v.Set(s)
			})
		}
		// long lists: the total word count crosses 127/128 (a signed or doubled UCHAR) and approaches 255
		for _, n := range []int{114, 128, 200, 236} {
			n := n
			if n > c.maxCount(f) {
				continue
			}
			add(fmt.Sprintf("words[%d]", n), func(v reflect.Value) {
				s := reflect.MakeSlice(f.Type, n, n)
				for i := 0; i < n; i++ {
					s.Index(i).SetUint(uint64(0x8000 | i<<4 | 1))
				}
				v.Set(s)
			})
		}
	case KString, KOEMString:
		format := SpecFormat(f)
		var vals [][]byte
		blob := false
		for _, g := range c.Fields {
			if g.Rel != nil && g.Rel.Kind == RDiv43 && g.Rel.Of == f.Name {
				blob = true
			}
		}
		switch {
		case blob:
			vals = [][]byte{counter(43, 1), counter(86, 0x80)}
		case format == 1 || format == 5:
			vals = [][]byte{[]byte("A"), {0x41, 0x80, 0xFF}, []byte("A\x00B"), counter(4, 1), counter(255, 1), counter(256, 0)}
		default:
			vals = [][]byte{[]byte("A"), {0x41, 0x80, 0xFF}, []byte("\\DIR\\FILE.TXT"), noNUL(255, 1), noNUL(256, 0x20)}
		}
		for _, b := range vals {
			b := b
			l := fmt.Sprintf("str[%d]", len(b))
			if len(b) <= 16 {
				l = fmt.Sprintf("str:%x", b)
			}
			if f.Kind == KOEMString {
				add(l, setOEM(b))
			} else {
				add(l, setStr(format, b))
			}
		}
		// where the library leaves the buffer format to the caller, every one of the five formats is a value of the field
		if f.Kind == KString && !blob {
			forced := byte(0)
			for i, g := range c.Fields {
				if g == f && i < len(c.Forced) {
					forced = c.Forced[i]
				}
			}
			if forced == 0 {
				for alt := byte(1); alt <= 5; alt++ {
					if alt == format || alt == 3 { // format 0x03 has a known layout deviation of its own (C06 finding)
						continue
					}
					alt := alt
					add(fmt.Sprintf("format%d:AB", alt), setStr(alt, []byte("AB")))
				}
			}
		}
	case KResumeKey:
		for _, start := range []byte{0x01, 0xE0} {
			start := start
			add(fmt.Sprintf("key@%#x", start), func(v reflect.Value) { setResumeKeyRaw(v, counter(21, start)) })
		}
	case KRange64s:
		mk := func(n int) func(v reflect.Value) {
			return func(v reflect.Value) {
				s := reflect.MakeSlice(f.Type, n, n)
				for i := 0; i < n; i++ {
					e, b := s.Index(i), uint64(0x10*(i+1))
					e.FieldByName("PID").SetUint(0x0102 + b)
					e.FieldByName("Pad").SetUint(0x0304 + b)
					e.FieldByName("ByteOffsetHigh").SetUint(0x05060708 + b)
					e.FieldByName("ByteOffsetLow").SetUint(0x090A0B0C + b)
					e.FieldByName("LengthInBytesHigh").SetUint(0x0D0E0F10 + b)
					e.FieldByName("LengthInBytesLow").SetUint(0xF1F2F3F4 - b)
				}
				v.Set(s)
			}
		}
		add("ranges1", mk(1))
		add("ranges2", mk(2))
		if thorough {
			add("ranges3", mk(3))
		}
	case KDirInfos:
		mk := func(names ...string) func(v reflect.Value) {
			return func(v reflect.Value) {
				s := reflect.MakeSlice(f.Type, len(names), len(names))
				for i, n := range names {
					fillDirInfo(s.Index(i), byte(1+0x30*i), n)
				}
				v.Set(s)
			}
		}
		add("dir1", mk("FILENAME.TXT"))
		add("dir2", mk("FILENAME.TXT", "A.B"))
	case KDialects:
		for n := 1; n <= 4; n++ {
			n := n
			add(fmt.Sprintf("dialects%d", n), func(v reflect.Value) {
				v.FieldByName("Dialects").Set(reflect.ValueOf(append([]string{}, dialectNames[:n]...)))
			})
		}
		// a zero-length dialect string (entry 02 00) in every position of a short list
		for i, l := range [][]string{{""}, {"", "NT LM 0.12"}, {"NT LM 0.12", ""}, {"A", "", "B"}, {"", ""}} {
			l := l
			add(fmt.Sprintf("dialects-with-empty%d", i), func(v reflect.Value) {
				v.FieldByName("Dialects").Set(reflect.ValueOf(append([]string{}, l...)))
			})
		}
	}
	return out
}

// Free reports whether the enumerator varies the field. Derived fields (counts, constant fields, pads that
// must be empty) are computed from the others.
func (f *Field) Free() bool { return f.Rel == nil || !f.Rel.Derived() }

// setBase puts the consistent default into a field of a fresh instance: the factory default, except that a
// date is 1980-01-01 (year 0 is not representable), strings carry the format MS-CIFS prescribes and a
// consistent Length, a resume key's scratch buffer matches its parts.
func (c *Cmd) setBase(f *Field, v reflect.Value) error {
	switch f.Kind {
	case KDate:
		setDate(1980, 1, 1)(v)
	case KString:
		fm := SpecFormat(f)
		if fm == 0 {
			return fmt.Errorf("%s.%s: the model does not know which buffer format MS-CIFS prescribes (model out of date)", c.Name, f.Name)
		}
		setString(v, fm, nil)
	case KOEMString:
		setString(v.FieldByName("SMB_STRING"), 4, nil)
	case KResumeKey:
		setResumeKeyRaw(v, make([]byte, 21))
	}
	return nil
}

// fullValue gives field number pos a value whose bytes differ from those of its neighbours.
func (c *Cmd) fullValue(f *Field, v reflect.Value, lat []Choice) {
	hi := byte(0x10 * (1 + f.Pos%15))
	switch f.Kind {
	case KInt:
		setBits(v, unle(counter(f.Width, hi+1)))
	case KFileTime:
		b := counter(8, hi+1)
		setFiletime(uint32(unle(b[:4])), uint32(unle(b[4:])))(v)
	case KLargeInt:
		v.FieldByName("QuadPart").SetUint(unle(counter(8, hi+1)))
	case KFileAttr:
		v.FieldByName("Attributes").SetUint(unle(counter(2, hi+1)))
	case KIntArray:
		b := counter(f.Width, hi+1)
		for i := 0; i < f.N; i++ {
			v.Index(i).SetUint(unle(b[i*f.Elem : (i+1)*f.Elem]))
		}
	default:
		if len(lat) > 0 {
			k := 0
			if f.Kind == KBytes && len(lat) > 2 && f.Rel.Kind != RPad {
				k = 2
			}
			if f.Rel != nil && f.Rel.Kind == RPad {
				return // keep the default alignment pad
			}
			lat[k].Set(v)
		}
	}
}

// Assign is one assignment: a base ("zero" = consistent defaults, "full" = every free field non-default with
// distinct bytes) plus deviations Dev[pos] = k>0 meaning lattice value k-1 of field pos.
type Assign struct {
	C    *Cmd
	Full bool
	Dev  []int
	Lat  [][]Choice
}

func (a *Assign) Label() string {
	var p []string
	if a.Full {
		p = append(p, "base=full")
	} else {
		p = append(p, "base=zero")
	}
	for i, k := range a.Dev {
		if k > 0 {
			p = append(p, a.C.Fields[i].Name+":="+a.Lat[i][k-1].Label)
		}
	}
	return strings.Join(p, " ")
}

// Deviates reports whether field pos was given a lattice value explicitly.
func (a *Assign) Deviates(pos int) bool { return a.Dev[pos] > 0 }

// Build returns a fresh instance carrying the assignment with all relations applied. An error means the
// assignment cannot be made consistent (e.g. a count does not fit its field) and is skipped by the caller.
func (a *Assign) Build() (command_interface.CommandInterface, error) {
	c := a.C
	inst := c.New()
	sv := reflect.ValueOf(inst).Elem()
	for _, f := range c.Fields {
		v := sv.Field(f.Index)
		if err := c.setBase(f, v); err != nil {
			return nil, err
		}
		if !f.Free() {
			continue
		}
		if a.Full {
			c.fullValue(f, v, a.Lat[f.Pos])
		}
		if k := a.Dev[f.Pos]; k > 0 {
			a.Lat[f.Pos][k-1].Set(v)
		}
	}
	if err := c.applyRelations(inst, a.Dev); err != nil {
		return nil, err
	}
	// a non-prescribed buffer format is a value of the field only where the library leaves the format to
	// the caller: if the library's own Marshal overwrites it, the assignment is not one the structure can hold
	for _, f := range c.Fields {
		k := a.Dev[f.Pos]
		if f.Kind != KString || k == 0 || !strings.HasPrefix(a.Lat[f.Pos][k-1].Label, "format") {
			continue
		}
		want := sv.Field(f.Index).FieldByName("BufferFormat").Uint()
		if !formatHonoured(a, f, want) {
			return nil, fmt.Errorf("%s.%s: the library forces another buffer format than %d", c.Name, f.Name, want)
		}
	}
	return inst, nil
}

var honoured sync.Map // "Cmd.Field.format" -> bool

// formatHonoured reports whether the library's Marshal keeps a caller-chosen buffer format of field f
// (decided once per command/field/format on the all-default assignment with only that field set).
func formatHonoured(a *Assign, f *Field, want uint64) bool {
	key := fmt.Sprintf("%s.%s.%d", a.C.Name, f.Name, want)
	if v, ok := honoured.Load(key); ok {
		return v.(bool)
	}
	ok := false
	func() {
		defer func() { recover() }()
		inst := a.C.New()
		sv := reflect.ValueOf(inst).Elem()
		for _, g := range a.C.Fields {
			if err := a.C.setBase(g, sv.Field(g.Index)); err != nil {
				return
			}
		}
		setStr(byte(want), []byte("AB"))(sv.Field(f.Index))
		if err := a.C.applyRelations(inst, make([]int, len(a.Dev))); err != nil {
			return
		}
		if _, err := inst.Marshal(); err != nil {
			return
		}
		ok = sv.Field(f.Index).FieldByName("BufferFormat").Uint() == want
	}()
	honoured.Store(key, ok)
	return ok
}

func elemCount(f *Field, v reflect.Value) int {
	switch f.Kind {
	case KBytes, KWords, KRange64s, KDirInfos:
		return v.Len()
	case KString:
		return v.FieldByName("Buffer").Len()
	case KOEMString:
		return v.FieldByName("SMB_STRING").FieldByName("Buffer").Len()
	}
	return 0
}

func fits(f *Field, x int) bool {
	return x >= 0 && (f.Width >= 8 || uint64(x) <= ^uint64(0)>>(64-8*uint(f.Width)))
}

func (c *Cmd) applyRelations(inst command_interface.CommandInterface, dev []int) error {
	sv := reflect.ValueOf(inst).Elem()
	fv := func(name string) (*Field, reflect.Value) {
		f := c.FieldByName(name)
		return f, sv.Field(f.Index)
	}
	// constants and counts
	for _, f := range c.Fields {
		if f.Rel == nil {
			continue
		}
		v := sv.Field(f.Index)
		switch f.Rel.Kind {
		case REmpty:
			v.Set(reflect.MakeSlice(f.Type, 0, 0))
		case RConst0:
			setBits(v, 0)
		case RWordCount:
			fx, variable := c.ParamWidth()
			if variable {
				return fmt.Errorf("WordCount mirror with variable parameters")
			}
			setBits(v, uint64(fx/2))
		case RCount, RStrLen, RDiv43:
			of, ov := fv(f.Rel.Of)
			n := elemCount(of, ov)
			if f.Rel.Kind == RDiv43 {
				if n%43 != 0 {
					return fmt.Errorf("blob is not a whole number of 43-byte entries")
				}
				n /= 43
			}
			if !fits(f, n) {
				return fmt.Errorf("%s=%d does not fit", f.Name, n)
			}
			setBits(v, uint64(n))
		}
	}
	for _, f := range c.Fields {
		if f.Rel != nil && f.Rel.Kind == RAtLeast {
			_, ov := fv(f.Rel.Of)
			if bits(sv.Field(f.Index)) < bits(ov) {
				setBits(sv.Field(f.Index), bits(ov))
			}
		}
	}
	// default pads: align the following buffer when it is non-empty
	for _, f := range c.Fields {
		if f.Rel == nil || f.Rel.Kind != RPad {
			continue
		}
		if dev != nil && dev[f.Pos] > 0 {
			// explicit padding is only locatable on the wire when the buffer behind it is non-empty
			// (then the buffer's offset field pins where the padding ends)
			of, ov := fv(f.Rel.Of)
			if elemCount(of, ov) == 0 {
				return fmt.Errorf("padding %s in front of an empty buffer cannot be told from the buffer", f.Name)
			}
			continue
		}
		v := sv.Field(f.Index)
		v.Set(reflect.MakeSlice(f.Type, 0, 0))
		of, ov := fv(f.Rel.Of)
		if elemCount(of, ov) == 0 || f.Rel.Align <= 1 {
			continue
		}
		l, err := c.Encode(inst)
		if err != nil {
			return err
		}
		abs := l.AbsOffset(l.SlotOf(f).Off)
		if r := abs % f.Rel.Align; r != 0 {
			v.SetBytes(make([]byte, f.Rel.Align-r))
		}
	}
	// offsets: measured on the reference layout (fixed-width fields, so setting them does not move anything)
	var l *Layout
	for _, f := range c.Fields {
		if f.Rel == nil || f.Rel.Kind != ROffset {
			continue
		}
		of, ov := fv(f.Rel.Of)
		if elemCount(of, ov) == 0 {
			continue // unconstrained while the buffer is empty
		}
		if l == nil {
			var err error
			if l, err = c.Encode(inst); err != nil {
				return err
			}
		}
		abs := l.AbsOffset(l.SlotOf(of).Off)
		if !fits(f, abs) {
			return fmt.Errorf("%s=%d does not fit", f.Name, abs)
		}
		setBits(sv.Field(f.Index), uint64(abs))
	}
	// final validation: the assignment must be encodable by the reference
	if _, err := c.Encode(inst); err != nil {
		return err
	}
	return nil
}

// Lattices computes the lattice of every field once.
func (c *Cmd) Lattices(thorough bool) [][]Choice {
	out := make([][]Choice, len(c.Fields))
	for _, f := range c.Fields {
		if f.Free() {
			out[f.Pos] = c.Lattice(f, thorough)
		}
	}
	return out
}

// Zero returns the all-default assignment.
func (c *Cmd) Zero(lat [][]Choice) *Assign {
	return &Assign{C: c, Dev: make([]int, len(c.Fields)), Lat: lat}
}

// FullAssign returns the assignment in which every free field is non-default.
func (c *Cmd) FullAssign(lat [][]Choice) *Assign {
	return &Assign{C: c, Full: true, Dev: make([]int, len(c.Fields)), Lat: lat}
}

// With returns a copy of a with field pos set to lattice value k (1-based).
func (a *Assign) With(pos, k int) *Assign {
	d := append([]int{}, a.Dev...)
	d[pos] = k
	return &Assign{C: a.C, Full: a.Full, Dev: d, Lat: a.Lat}
}

// WithoutFormatVariants drops the "formatN:…" choices (a caller-chosen, non-prescribed buffer format):
// they are values for the round-trip property (C04) only, not for the MS-CIFS layout checks.
func WithoutFormatVariants(lat [][]Choice) [][]Choice {
	out := make([][]Choice, len(lat))
	for i, l := range lat {
		for _, ch := range l {
			if !strings.HasPrefix(ch.Label, "format") {
				out[i] = append(out[i], ch)
			}
		}
	}
	return out
}

// IsFormatVariant reports whether assignment a uses such a choice.
func (a *Assign) IsFormatVariant() bool {
	for pos, k := range a.Dev {
		if k > 0 && strings.HasPrefix(a.Lat[pos][k-1].Label, "format") {
			return true
		}
	}
	return false
}
