package refsmb

import (
	"bytes"
	"encoding/hex"
	"fmt"
	"reflect"
)

// Published vectors:
//   - the SMB_COM_NEGOTIATE request sent by the public MS17-010 scanners (Metasploit smb_ms17_010, nmap
//     smb-vuln-ms17-010): header with Flags 0x18, Flags2 0x2801, PID 0x4B2F, MID 0x5EC5, WordCount 0,
//     ByteCount 0x31, four dialects each introduced by 0x02 and NUL-terminated;
//   - the classic six-dialect negotiate data block whose ByteCount is 0x0062 in every capture of a
//     Windows/Samba client;
//   - the header used by the repository's own TestHeaderUnmarshalFromHex.
const vecMS17010 = "ff534d4272000000001801280000000000000000000000000000" + "2f4b0000c55e" +
	"00" + "3100" + "024c414e4d414e312e3000" + "024c4d312e325830303200" + "024e54204c414e4d414e20312e3000" + "024e54204c4d20302e313200"

var vecSixDialects = []string{"PC NETWORK PROGRAM 1.0", "LANMAN1.0", "Windows for Workgroups 3.1a", "LM1.2X002", "LANMAN2.1", "NT LM 0.12"}

const vecRepoHeader = "ff534d4272000000001805c00000000000000000000000000000000000000000"

// SelfTest checks the reference codec on the vectors above and on its own round trip for every command.
func SelfTest() error {
	u, err := LoadUniverse()
	if err != nil {
		return fmt.Errorf("refsmb self-test: %v", err)
	}
	return u.SelfTest()
}

func (u *Universe) SelfTest() error {
	fail := func(f string, a ...any) error { return fmt.Errorf("refsmb self-test: "+f, a...) }
	pkt, _ := hex.DecodeString(vecMS17010)
	if len(pkt) != 84 {
		return fail("vector length %d", len(pkt))
	}
	h, err := DecodeHdr(pkt)
	if err != nil {
		return fail("%v", err)
	}
	if h.Protocol != [4]byte{0xFF, 'S', 'M', 'B'} || h.Command != 0x72 || h.Status != 0 || h.Flags != 0x18 || h.Flags2 != 0x2801 ||
		h.PIDLow != 0x4B2F || h.MID != 0x5EC5 || h.TID != 0 || h.UID != 0 || h.PID() != 0x4B2F {
		return fail("MS17-010 header decoded as %+v", *h)
	}
	if !bytes.Equal(h.Encode(), pkt[:32]) {
		return fail("header re-encode differs")
	}
	neg := u.ByName("NegotiateRequest")
	if neg == nil {
		return fail("no NegotiateRequest in the universe")
	}
	inst, err := neg.Decode(pkt[32:])
	if err != nil {
		return fail("negotiate decode: %v", err)
	}
	ds := reflect.ValueOf(inst).Elem().FieldByName("Dialects").FieldByName("Dialects")
	want := []string{"LANMAN1.0", "LM1.2X002", "NT LANMAN 1.0", "NT LM 0.12"}
	if ds.Len() != 4 {
		return fail("decoded %d dialects", ds.Len())
	}
	for i, w := range want {
		if ds.Index(i).String() != w {
			return fail("dialect %d = %q", i, ds.Index(i).String())
		}
	}
	l, err := neg.Encode(inst)
	if err != nil || !bytes.Equal(l.Bytes(), pkt[32:]) {
		return fail("negotiate re-encode differs: %x (%v)", l.Bytes(), err)
	}
	// six dialects -> ByteCount 0x62
	inst = neg.New()
	reflect.ValueOf(inst).Elem().FieldByName("Dialects").FieldByName("Dialects").Set(reflect.ValueOf(vecSixDialects))
	l, err = neg.Encode(inst)
	if err != nil || len(l.Data) != 0x62 || l.Bytes()[0] != 0 || l.Bytes()[1] != 0x62 || l.Bytes()[2] != 0 {
		return fail("six-dialect block has ByteCount %#x (%v)", len(l.Data), err)
	}
	rh, _ := hex.DecodeString(vecRepoHeader)
	h, err = DecodeHdr(rh)
	if err != nil || h.Flags != 0x18 || h.Flags2 != 0xC005 || h.Command != 0x72 || !bytes.Equal(h.Encode(), rh) {
		return fail("repository header vector")
	}
	// definitions straight from MS-CIFS 2.2.1: SMB_DATE 1980-01-01 = 0x0021; 2107-12-31 = 0xFF9F; string formats
	for _, d := range []struct {
		y, m, d int
		w       []byte
	}{{1980, 1, 1, []byte{0x21, 0x00}}, {2107, 12, 31, []byte{0x9F, 0xFF}}, {1999, 12, 31, []byte{0x9F, 0x27}}} {
		v := reflect.New(u.ByName("SetInformation2Request").FieldByName("CreateDate").Type).Elem()
		setDate(d.y, d.m, d.d)(v)
		b, err := encodeDate(v)
		if err != nil || !bytes.Equal(b, d.w) {
			return fail("SMB_DATE %v -> %x", d, b)
		}
		v2 := reflect.New(v.Type()).Elem()
		decodeDate(v2, b)
		if !reflect.DeepEqual(v.Interface(), v2.Interface()) {
			return fail("SMB_DATE decode")
		}
	}
	for _, s := range []struct {
		f byte
		w string
	}{{1, "010300414243"}, {2, "0241424300"}, {3, "0341424300"}, {4, "0441424300"}, {5, "050300414243"}} {
		b, err := EncodeString(s.f, []byte("ABC"))
		if err != nil || hex.EncodeToString(b) != s.w {
			return fail("string format %d -> %x", s.f, b)
		}
		f, buf, n, err := DecodeString(append(b, 0xEE))
		if err != nil || f != s.f || string(buf) != "ABC" || n != len(b) {
			return fail("string format %d decode", s.f)
		}
	}
	if CamelCase("NT_CREATE_ANDX") != "NtCreateAndx" || CamelCase("QUERY_INFORMATION2") != "QueryInformation2" || CamelCase("IOCTL") != "Ioctl" {
		return fail("CamelCase")
	}
	// reference round trip on the full assignment of every command
	for _, c := range u.Cmds {
		lat := c.Lattices(false)
		for _, a := range []*Assign{c.Zero(lat), c.FullAssign(lat)} {
			inst, err := a.Build()
			if err != nil {
				return fail("%s %s: cannot build: %v", c.Name, a.Label(), err)
			}
			l, err := c.Encode(inst)
			if err != nil {
				return fail("%s: %v", c.Name, err)
			}
			if l.Odd {
				continue // declared parameter types do not add up to whole words: nothing to round-trip
			}
			back, err := c.Decode(l.Bytes())
			if err != nil {
				return fail("%s %s: reference cannot decode its own encoding %x: %v", c.Name, a.Label(), l.Bytes(), err)
			}
			x, y := reflect.ValueOf(inst).Elem(), reflect.ValueOf(back).Elem()
			for _, f := range c.Fields {
				if f.Kind == KDirInfos {
					continue // SMB_TIME carries 16 of the FILETIME's 64 bits
				}
				if !c.FieldEqual(f, x.Field(f.Index), y.Field(f.Index)) {
					return fail("%s.%s: reference round trip %s -> %s", c.Name, f.Name, c.FieldString(f, x.Field(f.Index)), c.FieldString(f, y.Field(f.Index)))
				}
			}
			l2, err := c.Encode(back)
			if err != nil || !bytes.Equal(l2.Bytes(), l.Bytes()) {
				return fail("%s: reference re-encode differs", c.Name)
			}
		}
	}
	return nil
}
