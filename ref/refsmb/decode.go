package refsmb

import (
	"fmt"
	"reflect"

	"github.com/TheManticoreProject/Manticore/network/smb/smb_v10/message/commands/andx"
	"github.com/TheManticoreProject/Manticore/network/smb/smb_v10/message/commands/codes"
	"github.com/TheManticoreProject/Manticore/network/smb/smb_v10/message/commands/command_interface"
)

func setString(sv reflect.Value, format byte, buf []byte) {
	sv.FieldByName("BufferFormat").SetUint(uint64(format))
	sv.FieldByName("Length").SetUint(uint64(len(buf)))
	sv.FieldByName("Buffer").SetBytes(append([]byte{}, buf...))
}

func decodeDate(v reflect.Value, b []byte) {
	w := unle(b[:2])
	v.FieldByName("Year").SetUint(1980 + w>>9)
	v.FieldByName("Month").SetUint(w >> 5 & 0xF)
	v.FieldByName("Day").SetUint(w & 0x1F)
}

func setResumeKeyRaw(v reflect.Value, raw []byte) {
	v.FieldByName("Reserved").SetUint(uint64(raw[0]))
	ss := v.FieldByName("ServerState")
	for i := 0; i < 16; i++ {
		ss.Index(i).SetUint(uint64(raw[1+i]))
	}
	cs := v.FieldByName("ClientState")
	for i := 0; i < 4; i++ {
		cs.Index(i).SetUint(uint64(raw[17+i]))
	}
	setString(v.FieldByName("SMB_STRING"), 5, raw[:21])
}

// Decode is the reference decoder: it parses WordCount|Words|ByteCount|Bytes into a fresh instance of the
// command, using only the declared field types, the parameter/data split and the relation table.
func (c *Cmd) Decode(block []byte) (command_interface.CommandInterface, error) {
	fr, err := ParseFrame(block)
	if err != nil {
		return nil, err
	}
	inst := c.New()
	sv := reflect.ValueOf(inst).Elem()
	words, data := fr.Words, fr.Data
	wp, dp := 0, 0
	if c.AndX {
		if len(words) < 4 {
			return nil, fmt.Errorf("no AndX block")
		}
		inst.SetAndX(&andx.AndX{AndXCommand: codes.CommandCode(words[0]), AndXReserved: words[1], AndXOffset: uint16(unle(words[2:4]))})
		wp = 4
	}
	intOf := func(name string) int {
		return int(bits(sv.Field(c.FieldByName(name).Index)))
	}
	for _, f := range c.Fields {
		buf, pos := data, &dp
		if f.Section == SecParams {
			buf, pos = words, &wp
		}
		take := func(n int) ([]byte, error) {
			if n < 0 || *pos+n > len(buf) {
				return nil, fmt.Errorf("%s.%s: needs %d bytes at %s offset %d, block has %d", c.Name, f.Name, n, f.Section, *pos, len(buf))
			}
			b := buf[*pos : *pos+n]
			*pos += n
			return b, nil
		}
		v := sv.Field(f.Index)
		if f.Rel != nil && f.Rel.Kind == RWordCount {
			setBits(v, uint64(fr.WC))
			continue
		}
		if f.Rel != nil && f.Rel.Kind == ROptional && wp == len(words) {
			continue // left out: value zero
		}
		switch f.Kind {
		case KInt:
			b, err := take(f.Width)
			if err != nil {
				return nil, err
			}
			setBits(v, unle(b))
		case KFileTime:
			b, err := take(8)
			if err != nil {
				return nil, err
			}
			v.FieldByName("DwLowDateTime").SetUint(unle(b[:4]))
			v.FieldByName("DwHighDateTime").SetUint(unle(b[4:]))
		case KLargeInt:
			b, err := take(8)
			if err != nil {
				return nil, err
			}
			v.FieldByName("QuadPart").SetUint(unle(b))
		case KDate:
			b, err := take(2)
			if err != nil {
				return nil, err
			}
			decodeDate(v, b)
		case KFileAttr:
			b, err := take(2)
			if err != nil {
				return nil, err
			}
			v.FieldByName("Attributes").SetUint(unle(b))
		case KNMPipe:
			b, err := take(2)
			if err != nil {
				return nil, err
			}
			v.FieldByName("ICount").SetUint(uint64(b[0]))
			v.FieldByName("Flags").SetUint(uint64(b[1]))
		case KIntArray:
			for i := 0; i < f.N; i++ {
				b, err := take(f.Elem)
				if err != nil {
					return nil, err
				}
				v.Index(i).SetUint(unle(b))
			}
		case KBytes, KWords, KRange64s:
			n := 0
			switch f.Rel.Kind {
			case RBy:
				n = intOf(f.Rel.Of)
			case RRest:
				n = len(buf) - *pos
			case REmpty:
				n = 0
			case RPad:
				n = 0
				of := c.FieldByName(f.Rel.Of)
				cnt := intOf(of.Rel.Of)
				if cnt > 0 {
					for _, g := range c.Fields {
						if g.Rel != nil && g.Rel.Kind == ROffset && g.Rel.Of == of.Name {
							n = int(bits(sv.Field(g.Index))) - (32 + 1 + len(words) + 2 + *pos)
						}
					}
				}
			case RZStr16:
				n = -1
				for i := *pos; i+1 < len(buf); i += 2 {
					if buf[i] == 0 && buf[i+1] == 0 {
						n = i - *pos
						break
					}
				}
				if n < 0 {
					return nil, fmt.Errorf("%s.%s: no UTF-16 terminator", c.Name, f.Name)
				}
			}
			switch f.Kind {
			case KBytes:
				b, err := take(n)
				if err != nil {
					return nil, err
				}
				v.SetBytes(append([]byte{}, b...))
				if f.Rel.Kind == RZStr16 {
					*pos += 2
				}
			case KWords:
				s := reflect.MakeSlice(f.Type, n, n)
				for i := 0; i < n; i++ {
					b, err := take(2)
					if err != nil {
						return nil, err
					}
					s.Index(i).SetUint(unle(b))
				}
				v.Set(s)
			case KRange64s:
				s := reflect.MakeSlice(f.Type, n, n)
				for i := 0; i < n; i++ {
					b, err := take(20)
					if err != nil {
						return nil, err
					}
					e := s.Index(i)
					e.FieldByName("PID").SetUint(unle(b[0:2]))
					e.FieldByName("Pad").SetUint(unle(b[2:4]))
					e.FieldByName("ByteOffsetHigh").SetUint(unle(b[4:8]))
					e.FieldByName("ByteOffsetLow").SetUint(unle(b[8:12]))
					e.FieldByName("LengthInBytesHigh").SetUint(unle(b[12:16]))
					e.FieldByName("LengthInBytesLow").SetUint(unle(b[16:20]))
				}
				v.Set(s)
			}
		case KString, KOEMString:
			sv2 := v
			if f.Kind == KOEMString {
				sv2 = v.FieldByName("SMB_STRING")
			}
			if c.IsBare(f) {
				end := -1
				for i := *pos; i < len(buf); i++ {
					if buf[i] == 0 {
						end = i
						break
					}
				}
				if end < 0 {
					return nil, fmt.Errorf("%s.%s: no terminator", c.Name, f.Name)
				}
				setString(sv2, SpecFormat(f), buf[*pos:end])
				*pos = end + 1
				break
			}
			format, b, n, err := DecodeString(buf[*pos:])
			if err != nil {
				return nil, fmt.Errorf("%s.%s: %v", c.Name, f.Name, err)
			}
			setString(sv2, format, b)
			*pos += n
		case KResumeKey:
			format, b, n, err := DecodeString(buf[*pos:])
			if err != nil || format != 5 || len(b) != 21 {
				return nil, fmt.Errorf("%s.%s: not a 21-byte variable block (%v)", c.Name, f.Name, err)
			}
			setResumeKeyRaw(v, b)
			*pos += n
		case KDirInfos:
			format, b, n, err := DecodeString(buf[*pos:])
			if err != nil || format != 5 || len(b)%43 != 0 {
				return nil, fmt.Errorf("%s.%s: not a variable block of 43-byte entries (%v)", c.Name, f.Name, err)
			}
			*pos += n
			cnt := len(b) / 43
			s := reflect.MakeSlice(f.Type, cnt, cnt)
			for i := 0; i < cnt; i++ {
				e, r := s.Index(i), b[43*i:43*i+43]
				setResumeKeyRaw(e.FieldByName("ResumeKey"), r[:21])
				e.FieldByName("FileAttributes").SetUint(uint64(r[21]))
				e.FieldByName("LastWriteTime").FieldByName("DwLowDateTime").SetUint(unle(r[22:24]))
				decodeDate(e.FieldByName("LastWriteDate"), r[24:26])
				e.FieldByName("FileSize").SetUint(unle(r[26:30]))
				setString(e.FieldByName("FileName").FieldByName("SMB_STRING"), 4, r[30:42])
			}
			v.Set(s)
		case KDialects:
			var ds []string
			for *pos < len(buf) {
				format, b, n, err := DecodeString(buf[*pos:])
				if err != nil || format != 2 {
					return nil, fmt.Errorf("%s.%s: dialect entry is not 0x02 name NUL (%v)", c.Name, f.Name, err)
				}
				ds = append(ds, string(b))
				*pos += n
			}
			if ds == nil {
				ds = []string{}
			}
			v.FieldByName("Dialects").Set(reflect.ValueOf(ds))
		default:
			return nil, fmt.Errorf("no decoder for kind %v", f.Kind)
		}
	}
	if wp != len(words) {
		return nil, fmt.Errorf("%s: %d parameter bytes, declared fields cover %d", c.Name, len(words), wp)
	}
	if dp != len(data) {
		return nil, fmt.Errorf("%s: %d data bytes, declared fields cover %d", c.Name, len(data), dp)
	}
	return inst, nil
}
