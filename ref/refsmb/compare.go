package refsmb

import (
	"bytes"
	"encoding/hex"
	"fmt"
	"reflect"
	"strings"
)

func strEqual(a, b reflect.Value, ignoreFormat bool) bool {
	if !ignoreFormat && a.FieldByName("BufferFormat").Uint() != b.FieldByName("BufferFormat").Uint() {
		return false
	}
	if a.FieldByName("Length").Uint() != b.FieldByName("Length").Uint() {
		return false
	}
	return bytes.Equal(a.FieldByName("Buffer").Bytes(), b.FieldByName("Buffer").Bytes())
}

func resumeKeyEqual(a, b reflect.Value) bool {
	return bytes.Equal(resumeKeyRaw(a), resumeKeyRaw(b))
}

// FieldEqual compares two values of field f the way the property reads "fields equal to the original":
// nil and empty slices are the same value; a bare string has no format on the wire so its BufferFormat
// is not compared; 8.3 names are compared without trailing padding spaces; the SMB_STRING embedded in a
// resume key is a marshalling scratch area and only Reserved/ServerState/ClientState are compared.
func (c *Cmd) FieldEqual(f *Field, a, b reflect.Value) bool {
	switch f.Kind {
	case KBytes:
		return bytes.Equal(a.Bytes(), b.Bytes())
	case KWords, KRange64s:
		if a.Len() != b.Len() {
			return false
		}
		for i := 0; i < a.Len(); i++ {
			if !reflect.DeepEqual(a.Index(i).Interface(), b.Index(i).Interface()) {
				return false
			}
		}
		return true
	case KString:
		return strEqual(a, b, c.IsBare(f))
	case KOEMString:
		return strEqual(a.FieldByName("SMB_STRING"), b.FieldByName("SMB_STRING"), c.IsBare(f))
	case KResumeKey:
		return resumeKeyEqual(a, b)
	case KDirInfos:
		if a.Len() != b.Len() {
			return false
		}
		for i := 0; i < a.Len(); i++ {
			x, y := a.Index(i), b.Index(i)
			if !resumeKeyEqual(x.FieldByName("ResumeKey"), y.FieldByName("ResumeKey")) {
				return false
			}
			for _, n := range []string{"FileAttributes", "LastWriteTime", "LastWriteDate", "FileSize"} {
				if !reflect.DeepEqual(x.FieldByName(n).Interface(), y.FieldByName(n).Interface()) {
					return false
				}
			}
			_, xn := smbString(x.FieldByName("FileName").FieldByName("SMB_STRING"))
			_, yn := smbString(y.FieldByName("FileName").FieldByName("SMB_STRING"))
			if strings.TrimRight(string(xn), " ") != strings.TrimRight(string(yn), " ") {
				return false
			}
		}
		return true
	case KDialects:
		x, y := a.FieldByName("Dialects"), b.FieldByName("Dialects")
		if x.Len() != y.Len() {
			return false
		}
		for i := 0; i < x.Len(); i++ {
			if x.Index(i).String() != y.Index(i).String() {
				return false
			}
		}
		return true
	}
	return reflect.DeepEqual(a.Interface(), b.Interface())
}

func hexs(b []byte) string {
	if len(b) <= 40 {
		return hex.EncodeToString(b)
	}
	return fmt.Sprintf("%s…(%d bytes)", hex.EncodeToString(b[:32]), len(b))
}

// FieldString renders a field value for witnesses.
func (c *Cmd) FieldString(f *Field, v reflect.Value) string {
	switch f.Kind {
	case KInt:
		return fmt.Sprintf("0x%0*x", 2*f.Width, bits(v)&(^uint64(0)>>(64-8*uint(f.Width))))
	case KBytes:
		return "bytes:" + hexs(v.Bytes())
	case KString:
		fm, b := smbString(v)
		return fmt.Sprintf("{fmt=%d len=%d buf=%s}", fm, v.FieldByName("Length").Uint(), hexs(b))
	case KOEMString:
		fm, b := smbString(v.FieldByName("SMB_STRING"))
		return fmt.Sprintf("{fmt=%d len=%d buf=%s}", fm, v.FieldByName("SMB_STRING").FieldByName("Length").Uint(), hexs(b))
	case KResumeKey:
		return "resumekey:" + hexs(resumeKeyRaw(v))
	case KDirInfos, KRange64s:
		s := fmt.Sprintf("%+v", v.Interface())
		if len(s) > 300 {
			s = s[:300] + "…"
		}
		return s
	}
	s := fmt.Sprintf("%+v", v.Interface())
	if len(s) > 200 {
		s = s[:200] + "…"
	}
	return s
}
