package refsmb

import "fmt"

// Hdr is the 32-byte SMB header of MS-CIFS 2.2.3.1, all multi-byte fields little-endian:
//
//	0  Protocol[4] = 0xFF 'S' 'M' 'B'      14 SecurityFeatures[8]   28 UID
//	4  Command                              22 Reserved              30 MID
//	5  Status (4)                           24 TID
//	9  Flags      10 Flags2 (2)             26 PIDLow
//	12 PIDHigh
type Hdr struct {
	Protocol [4]byte
	Command  byte
	Status   uint32
	Flags    byte
	Flags2   uint16
	PIDHigh  uint16
	Security [8]byte
	Reserved uint16
	TID      uint16
	PIDLow   uint16
	UID      uint16
	MID      uint16
}

// HdrFields lists name, offset and width of every header field.
var HdrFields = []struct {
	Name     string
	Off, Len int
}{{"Protocol", 0, 4}, {"Command", 4, 1}, {"Status", 5, 4}, {"Flags", 9, 1}, {"Flags2", 10, 2}, {"PIDHigh", 12, 2},
	{"SecurityFeatures", 14, 8}, {"Reserved", 22, 2}, {"TID", 24, 2}, {"PIDLow", 26, 2}, {"UID", 28, 2}, {"MID", 30, 2}}

func (h *Hdr) Encode() []byte {
	b := make([]byte, 0, 32)
	b = append(b, h.Protocol[:]...)
	b = append(b, h.Command)
	b = append(b, le(uint64(h.Status), 4)...)
	b = append(b, h.Flags)
	b = append(b, le(uint64(h.Flags2), 2)...)
	b = append(b, le(uint64(h.PIDHigh), 2)...)
	b = append(b, h.Security[:]...)
	b = append(b, le(uint64(h.Reserved), 2)...)
	b = append(b, le(uint64(h.TID), 2)...)
	b = append(b, le(uint64(h.PIDLow), 2)...)
	b = append(b, le(uint64(h.UID), 2)...)
	b = append(b, le(uint64(h.MID), 2)...)
	return b
}

func DecodeHdr(b []byte) (*Hdr, error) {
	if len(b) < 32 {
		return nil, fmt.Errorf("header needs 32 bytes, have %d", len(b))
	}
	h := &Hdr{}
	copy(h.Protocol[:], b[0:4])
	h.Command = b[4]
	h.Status = uint32(unle(b[5:9]))
	h.Flags = b[9]
	h.Flags2 = uint16(unle(b[10:12]))
	h.PIDHigh = uint16(unle(b[12:14]))
	copy(h.Security[:], b[14:22])
	h.Reserved = uint16(unle(b[22:24]))
	h.TID = uint16(unle(b[24:26]))
	h.PIDLow = uint16(unle(b[26:28]))
	h.UID = uint16(unle(b[28:30]))
	h.MID = uint16(unle(b[30:32]))
	return h, nil
}

// PID is the 32-bit process id: PIDHigh is the high-order word (MS-CIFS 2.2.3.1).
func (h *Hdr) PID() uint32 { return uint32(h.PIDHigh)<<16 | uint32(h.PIDLow) }

// CommandNames is MS-CIFS 2.2.2.1 (code -> name without the SMB_COM_ prefix), typed in from the specification.
var CommandNames = map[byte]string{
	0x00: "CREATE_DIRECTORY", 0x01: "DELETE_DIRECTORY", 0x02: "OPEN", 0x03: "CREATE", 0x04: "CLOSE", 0x05: "FLUSH", 0x06: "DELETE",
	0x07: "RENAME", 0x08: "QUERY_INFORMATION", 0x09: "SET_INFORMATION", 0x0A: "READ", 0x0B: "WRITE", 0x0C: "LOCK_BYTE_RANGE",
	0x0D: "UNLOCK_BYTE_RANGE", 0x0E: "CREATE_TEMPORARY", 0x0F: "CREATE_NEW", 0x10: "CHECK_DIRECTORY", 0x11: "PROCESS_EXIT", 0x12: "SEEK",
	0x13: "LOCK_AND_READ", 0x14: "WRITE_AND_UNLOCK", 0x1A: "READ_RAW", 0x1B: "READ_MPX", 0x1C: "READ_MPX_SECONDARY", 0x1D: "WRITE_RAW",
	0x1E: "WRITE_MPX", 0x1F: "WRITE_MPX_SECONDARY", 0x20: "WRITE_COMPLETE", 0x21: "QUERY_SERVER", 0x22: "SET_INFORMATION2",
	0x23: "QUERY_INFORMATION2", 0x24: "LOCKING_ANDX", 0x25: "TRANSACTION", 0x26: "TRANSACTION_SECONDARY", 0x27: "IOCTL",
	0x28: "IOCTL_SECONDARY", 0x29: "COPY", 0x2A: "MOVE", 0x2B: "ECHO", 0x2C: "WRITE_AND_CLOSE", 0x2D: "OPEN_ANDX", 0x2E: "READ_ANDX",
	0x2F: "WRITE_ANDX", 0x30: "NEW_FILE_SIZE", 0x31: "CLOSE_AND_TREE_DISC", 0x32: "TRANSACTION2", 0x33: "TRANSACTION2_SECONDARY",
	0x34: "FIND_CLOSE2", 0x35: "FIND_NOTIFY_CLOSE", 0x70: "TREE_CONNECT", 0x71: "TREE_DISCONNECT", 0x72: "NEGOTIATE",
	0x73: "SESSION_SETUP_ANDX", 0x74: "LOGOFF_ANDX", 0x75: "TREE_CONNECT_ANDX", 0x7E: "SECURITY_PACKAGE_ANDX",
	0x80: "QUERY_INFORMATION_DISK", 0x81: "SEARCH", 0x82: "FIND", 0x83: "FIND_UNIQUE", 0x84: "FIND_CLOSE", 0xA0: "NT_TRANSACT",
	0xA1: "NT_TRANSACT_SECONDARY", 0xA2: "NT_CREATE_ANDX", 0xA4: "NT_CANCEL", 0xA5: "NT_RENAME", 0xC0: "OPEN_PRINT_FILE",
	0xC1: "WRITE_PRINT_FILE", 0xC2: "CLOSE_PRINT_FILE", 0xC3: "GET_PRINT_QUEUE", 0xD8: "READ_BULK", 0xD9: "WRITE_BULK",
	0xDA: "WRITE_BULK_DATA", 0xFE: "INVALID", 0xFF: "NO_ANDX_COMMAND",
}

// CamelCase turns "NT_CREATE_ANDX" into "NtCreateAndx".
func CamelCase(s string) string {
	out := []byte{}
	up := true
	for i := 0; i < len(s); i++ {
		ch := s[i]
		if ch == '_' {
			up = true
			continue
		}
		if ch >= 'A' && ch <= 'Z' && !up {
			ch += 'a' - 'A'
		}
		up = false
		out = append(out, ch)
	}
	return string(out)
}
