package refntlm

import (
	"bytes"
	"fmt"

	ntlmssp "github.com/Azure/go-ntlmssp"

	rc "verif/ref/refcrypto"
)

// crossCheckThirdParty validates the reference codecs against an independent third
// implementation that shares no code with /repo or with this package
// (github.com/Azure/go-ntlmssp, an NTLMv2 client): it must accept every layout variant of
// the reference CHALLENGE encoder, and the AUTHENTICATE / NEGOTIATE messages it builds must
// pass the reference readers, the layout checker and the NTLMv2 verifier.
func crossCheckThirdParty() error {
	fail := func(f string, a ...any) error {
		return fmt.Errorf("refntlm cross-check with Azure/go-ntlmssp: "+f, a...)
	}
	nt := rc.NT("Pässword")
	lists := [][]AvPair{
		nil,
		{{2, rc.UTF16LE("DOM")}},
		{{2, rc.UTF16LE("DOM")}, {1, rc.UTF16LE("SRV")}, {7, []byte{1, 2, 3, 4, 5, 6, 7, 8}}, {9, nil}},
	}
	for li, pairs := range lists {
		for _, infoFirst := range []bool{false, true} {
			for _, gap := range []int{0, 3} {
				for _, user := range []string{"User", "é"} {
					spec := &Challenge{Flags: FlagUnicode | FlagNTLM | FlagESS | FlagTargetInfo | FlagReqTarget | FlagTypeServer | FlagVersion,
						TargetName: rc.UTF16LE("Tärget"), TargetInfo: EncodeAvPairs(pairs), InfoFirst: infoFirst, Gap: gap,
						ServerChallenge: [8]byte{1, 2, 3, 4, 5, 6, 7, byte(li)}, Version: [8]byte{6, 1, 0xb1, 0x1d, 0, 0, 0, 15}}
					msg := EncodeChallenge(spec)
					am, err := ntlmssp.ProcessChallenge(msg, user, "Pässword", true)
					if err != nil {
						return fail("reference-encoded CHALLENGE %x refused: %v", msg, err)
					}
					a, err := ParseAuthenticate(am)
					if err != nil || !a.SigOK || a.Type != 3 {
						return fail("its AUTHENTICATE %x is not readable: %v", am, err)
					}
					if p := CheckLayout(len(am), a.Fixed, a.Fields()); len(p) != 0 {
						return fail("layout problems in its AUTHENTICATE %x: %+v", am, p)
					}
					ub, _ := a.User.Slice(am)
					db, _ := a.Domain.Slice(am)
					nr, _ := a.Nt.Slice(am)
					us, e1 := DecodeUTF16LE(ub)
					ds, e2 := DecodeUTF16LE(db)
					if e1 != nil || e2 != nil || us != user || ds != "Tärget" {
						return fail("names read as %q %q (%v %v)", us, ds, e1, e2)
					}
					v := VerifyNTLMv2(nt, us, ds, spec.ServerChallenge[:], nr)
					if !v.ProofOK || v.BlobErr != nil {
						return fail("its NTLMv2 response %x is not accepted: proof=%v blob=%v", nr, v.ProofOK, v.BlobErr)
					}
					if len(v.Blob.Pairs) != len(pairs) {
						return fail("blob carries %d pairs, server sent %d", len(v.Blob.Pairs), len(pairs))
					}
					for i := range pairs {
						if v.Blob.Pairs[i].ID != pairs[i].ID || !bytes.Equal(v.Blob.Pairs[i].Value, pairs[i].Value) {
							return fail("blob pair %d = %+v, server sent %+v", i, v.Blob.Pairs[i], pairs[i])
						}
					}
				}
			}
		}
	}
	for _, nm := range [][2]string{{"", ""}, {"DOM", ""}, {"", "WS"}, {"DOM", "WS"}} {
		msg, err := ntlmssp.NewNegotiateMessage(nm[0], nm[1])
		if err != nil {
			return fail("NewNegotiateMessage: %v", err)
		}
		m, err := ParseNegotiate(msg)
		if err != nil || !m.SigOK || m.Type != 1 || m.Fixed != 40 {
			return fail("its NEGOTIATE %x read as %+v, %v", msg, m, err)
		}
		if p := CheckLayout(len(msg), m.Fixed, []NamedField{{"DomainName", m.Domain}, {"Workstation", m.Workstation}}); len(p) != 0 {
			return fail("layout problems in its NEGOTIATE %x: %+v", msg, p)
		}
		d, _ := m.Domain.Slice(msg)
		w, _ := m.Workstation.Slice(msg)
		if string(d) != nm[0] || string(w) != nm[1] || (m.Flags&FlagDomainSup != 0) != (nm[0] != "") || (m.Flags&FlagWkstaSup != 0) != (nm[1] != "") {
			return fail("its NEGOTIATE(%q,%q) read as %q %q flags %#x", nm[0], nm[1], d, w, m.Flags)
		}
	}
	return nil
}
