// Package refntlm holds independent reference codecs for the NTLMSSP / SPNEGO checks
// (C02, C08), written from MS-NLMP and X.690 and sharing no code with /repo:
//
//   - AV_PAIR lists (MS-NLMP 2.2.2.1) and the NTLMv2_CLIENT_CHALLENGE blob (2.2.2.7),
//   - an NTLMv2 verifier that works as a server does (3.3.2),
//   - a strict NTLMSSP message reader for NEGOTIATE (2.2.1.1) and AUTHENTICATE (2.2.1.3)
//     with a descriptor layout checker, and an encoder + reader for CHALLENGE (2.2.1.2),
//   - DER length / TLV encoding and a strict recursive DER reader (X.690 8.1, 10.1).
//
// SelfTest reproduces the MS-NLMP 4.2.4 example (NTProofStr, LMv2 response, CHALLENGE and
// AUTHENTICATE message bytes) and the X.690 length forms, and cross-checks encoder, readers
// and verifier against github.com/Azure/go-ntlmssp (crosscheck.go).
package refntlm

import (
	"bytes"
	"encoding/binary"
	"encoding/hex"
	"errors"
	"fmt"
	stdutf16 "unicode/utf16"

	rc "verif/ref/refcrypto"
)

// ------------------------------------------------------------------ flags (MS-NLMP 2.2.2.5)

const (
	FlagUnicode    uint32 = 0x00000001 // A
	FlagOEM        uint32 = 0x00000002 // B
	FlagReqTarget  uint32 = 0x00000004 // C
	FlagNTLM       uint32 = 0x00000200 // H
	FlagDomainSup  uint32 = 0x00001000 // K
	FlagWkstaSup   uint32 = 0x00002000 // L
	FlagAlwaysSign uint32 = 0x00008000 // M
	FlagTypeServer uint32 = 0x00020000 // O
	FlagESS        uint32 = 0x00080000 // P
	FlagTargetInfo uint32 = 0x00800000 // S
	FlagVersion    uint32 = 0x02000000 // T
	FlagKeyExch    uint32 = 0x40000000 // V
)

var Signature = []byte{'N', 'T', 'L', 'M', 'S', 'S', 'P', 0}

// ------------------------------------------------------------------ text

// DecodeUTF16LE decodes well-formed UTF-16LE (even length, paired surrogates).
func DecodeUTF16LE(b []byte) (string, error) {
	if len(b)%2 != 0 {
		return "", fmt.Errorf("odd number of bytes (%d) in a UTF-16 string", len(b))
	}
	u := make([]uint16, len(b)/2)
	for i := range u {
		u[i] = binary.LittleEndian.Uint16(b[2*i:])
	}
	for i := 0; i < len(u); i++ {
		switch {
		case u[i] >= 0xD800 && u[i] < 0xDC00:
			if i+1 >= len(u) || u[i+1] < 0xDC00 || u[i+1] > 0xDFFF {
				return "", fmt.Errorf("unpaired high surrogate at unit %d", i)
			}
			i++
		case u[i] >= 0xDC00 && u[i] <= 0xDFFF:
			return "", fmt.Errorf("unpaired low surrogate at unit %d", i)
		}
	}
	return string(stdutf16.Decode(u)), nil
}

// IsASCII reports whether s is 7-bit only.
func IsASCII(s string) bool {
	for i := 0; i < len(s); i++ {
		if s[i] >= 0x80 {
			return false
		}
	}
	return true
}

// ------------------------------------------------------------------ AV pairs (2.2.2.1)

type AvPair struct {
	ID    uint16
	Value []byte
}

// EncodeAvPairs encodes the pairs followed by the MsvAvEOL terminator.
func EncodeAvPairs(ps []AvPair) []byte {
	var out []byte
	for _, p := range ps {
		out = binary.LittleEndian.AppendUint16(out, p.ID)
		out = binary.LittleEndian.AppendUint16(out, uint16(len(p.Value)))
		out = append(out, p.Value...)
	}
	return append(out, 0, 0, 0, 0)
}

// ParseAvPairs reads pairs up to and including MsvAvEOL and returns what follows it.
func ParseAvPairs(b []byte) (pairs []AvPair, rest []byte, err error) {
	off := 0
	for {
		if off+4 > len(b) {
			return pairs, nil, fmt.Errorf("AV_PAIR list not terminated by MsvAvEOL (ran out of bytes at offset %d of %d)", off, len(b))
		}
		id := binary.LittleEndian.Uint16(b[off:])
		n := int(binary.LittleEndian.Uint16(b[off+2:]))
		off += 4
		if id == 0 {
			if n != 0 {
				return pairs, nil, fmt.Errorf("MsvAvEOL with AvLen %d (must be 0)", n)
			}
			return pairs, b[off:], nil
		}
		if off+n > len(b) {
			return pairs, nil, fmt.Errorf("AV_PAIR id 0x%04x at offset %d: AvLen %d exceeds the %d bytes that remain", id, off-4, n, len(b)-off)
		}
		pairs = append(pairs, AvPair{id, b[off : off+n]})
		off += n
	}
}

// ------------------------------------------------------------------ NTLMv2 client blob (2.2.2.7)

type ClientBlob struct {
	Time            uint64
	ClientChallenge [8]byte
	Pairs           []AvPair
	Trailer         []byte
}

// ParseClientBlob checks that b is a well-formed NTLMv2_CLIENT_CHALLENGE: RespType 1,
// HiRespType 1, 6 reserved bytes, 8-byte time, 8-byte client challenge, 4 reserved bytes,
// a list of AV_PAIRs with defined ids terminated by MsvAvEOL, optionally followed by zero
// padding (MS-NLMP 3.3.2 appends Z(4)). Reserved fields "SHOULD be zero, MUST be ignored":
// their value is not judged.
func ParseClientBlob(b []byte) (*ClientBlob, error) {
	if len(b) < 32 {
		return nil, fmt.Errorf("client blob has %d bytes; the fixed part (28) plus MsvAvEOL (4) needs 32", len(b))
	}
	if b[0] != 1 || b[1] != 1 {
		return nil, fmt.Errorf("RespType/HiRespType = %02x/%02x, want 01/01", b[0], b[1])
	}
	cb := &ClientBlob{Time: binary.LittleEndian.Uint64(b[8:16])}
	copy(cb.ClientChallenge[:], b[16:24])
	pairs, rest, err := ParseAvPairs(b[28:])
	if err != nil {
		return cb, err
	}
	for _, p := range pairs {
		if p.ID > 0x000A {
			return cb, fmt.Errorf("AV_PAIR with undefined AvId 0x%04x (MS-NLMP 2.2.2.1 defines 0x0000..0x000A)", p.ID)
		}
	}
	for _, x := range rest {
		if x != 0 {
			return cb, fmt.Errorf("non-zero bytes %x after MsvAvEOL", rest)
		}
	}
	cb.Pairs, cb.Trailer = pairs, rest
	return cb, nil
}

// V2Verdict is what an NTLMv2 verifier that knows the NT hash concludes about a response.
type V2Verdict struct {
	LenOK   bool   // at least 16 bytes of proof
	ProofOK bool   // first 16 bytes = HMAC-MD5(NTOWFv2, server challenge || rest)
	Want    []byte // the proof the verifier computed
	Blob    *ClientBlob
	BlobErr error // rest is not a well-formed client blob
}

// VerifyNTLMv2 verifies response for (user, domain) as a server does: user is upper-cased,
// domain is used exactly as given.
func VerifyNTLMv2(nt [16]byte, user, domain string, serverChallenge []byte, response []byte) V2Verdict {
	var v V2Verdict
	if len(response) < 16 {
		v.BlobErr = errors.New("response shorter than 16 bytes")
		return v
	}
	v.LenOK = true
	key := rc.NTOWFv2(nt, user, domain)
	v.Want = rc.HMACMD5(key, serverChallenge, response[16:])
	v.ProofOK = bytes.Equal(v.Want, response[:16])
	v.Blob, v.BlobErr = ParseClientBlob(response[16:])
	return v
}

// VerifyLMv2 checks HMAC-MD5(NTOWFv2, server challenge || client challenge) || client challenge.
func VerifyLMv2(nt [16]byte, user, domain string, serverChallenge []byte, response []byte) bool {
	if len(response) != 24 {
		return false
	}
	key := rc.NTOWFv2(nt, user, domain)
	return bytes.Equal(rc.HMACMD5(key, serverChallenge, response[16:]), response[:16])
}

// ------------------------------------------------------------------ NTLMSSP descriptors

// Field is a (Len, MaxLen, BufferOffset) descriptor.
type Field struct {
	Len, MaxLen uint16
	Off         uint32
}

func readField(b []byte, at int) Field {
	return Field{binary.LittleEndian.Uint16(b[at:]), binary.LittleEndian.Uint16(b[at+2:]), binary.LittleEndian.Uint32(b[at+4:])}
}

// Slice returns the bytes the descriptor designates, if they are inside msg.
func (f Field) Slice(msg []byte) ([]byte, bool) {
	end := uint64(f.Off) + uint64(f.Len)
	if end > uint64(len(msg)) {
		return nil, false
	}
	return msg[f.Off:end], true
}

type NamedField struct {
	Name string
	F    Field
}

type LayoutProblem struct {
	Field string
	Kind  string // maxlen-below-len | inside-header | out-of-bounds | overlap
	Text  string
}

// CheckLayout judges descriptors against a message of total bytes with a fixed part of
// header bytes: MaxLen >= Len (MaxLen "SHOULD equal Len", a smaller one cannot be a buffer
// size), a non-empty field starts at or after the fixed part and ends inside the message,
// and no two non-empty fields share a byte. An empty field only needs an offset inside the
// message.
func CheckLayout(total, header int, fs []NamedField) []LayoutProblem {
	var out []LayoutProblem
	for i, a := range fs {
		if a.F.MaxLen < a.F.Len {
			out = append(out, LayoutProblem{a.Name, "maxlen-below-len", fmt.Sprintf("%s: Len=%d MaxLen=%d", a.Name, a.F.Len, a.F.MaxLen)})
		}
		end := uint64(a.F.Off) + uint64(a.F.Len)
		if end > uint64(total) {
			out = append(out, LayoutProblem{a.Name, "out-of-bounds", fmt.Sprintf("%s: offset %d + len %d > message size %d", a.Name, a.F.Off, a.F.Len, total)})
			continue
		}
		if a.F.Len == 0 {
			continue
		}
		if int(a.F.Off) < header {
			out = append(out, LayoutProblem{a.Name, "inside-header", fmt.Sprintf("%s: offset %d lies inside the %d-byte fixed part", a.Name, a.F.Off, header)})
		}
		for _, b := range fs[i+1:] {
			if b.F.Len == 0 {
				continue
			}
			bend := uint64(b.F.Off) + uint64(b.F.Len)
			if uint64(a.F.Off) < bend && uint64(b.F.Off) < end {
				out = append(out, LayoutProblem{a.Name, "overlap", fmt.Sprintf("%s [%d,%d) overlaps %s [%d,%d)", a.Name, a.F.Off, end, b.Name, b.F.Off, bend)})
			}
		}
	}
	return out
}

// ------------------------------------------------------------------ NEGOTIATE (2.2.1.1)

type NegotiateMsg struct {
	SigOK       bool
	Type        uint32
	Flags       uint32
	Domain      Field
	Workstation Field
	Version     [8]byte
	Fixed       int // size of the fixed part: 40 with Version, 32 for pre-Version senders
}

func ParseNegotiate(b []byte) (*NegotiateMsg, error) {
	if len(b) < 32 {
		return nil, fmt.Errorf("NEGOTIATE_MESSAGE of %d bytes is shorter than the 32-byte minimum", len(b))
	}
	m := &NegotiateMsg{SigOK: bytes.Equal(b[:8], Signature), Type: binary.LittleEndian.Uint32(b[8:]), Flags: binary.LittleEndian.Uint32(b[12:])}
	m.Domain = readField(b, 16)
	m.Workstation = readField(b, 24)
	m.Fixed = 32
	if len(b) >= 40 && (m.Flags&FlagVersion != 0 || minOffset(len(b), m.Domain, m.Workstation) >= 40) {
		copy(m.Version[:], b[32:40])
		m.Fixed = 40
	}
	return m, nil
}

func minOffset(total int, fs ...Field) int {
	m := total
	for _, f := range fs {
		if f.Len > 0 && int(f.Off) < m {
			m = int(f.Off)
		}
	}
	return m
}

// ------------------------------------------------------------------ AUTHENTICATE (2.2.1.3)

type AuthenticateMsg struct {
	SigOK                                      bool
	Type                                       uint32
	Lm, Nt, Domain, User, Workstation, SessKey Field
	Flags                                      uint32
	Version                                    [8]byte
	MIC                                        [16]byte
	Fixed                                      int // 64 (no Version), 72 (Version), 88 (Version + MIC)
}

// ParseAuthenticate reads the fixed part. Which optional trailing header fields exist is
// decided as receivers do: by where the payload starts.
func ParseAuthenticate(b []byte) (*AuthenticateMsg, error) {
	if len(b) < 64 {
		return nil, fmt.Errorf("AUTHENTICATE_MESSAGE of %d bytes is shorter than the 64-byte minimum", len(b))
	}
	m := &AuthenticateMsg{SigOK: bytes.Equal(b[:8], Signature), Type: binary.LittleEndian.Uint32(b[8:])}
	m.Lm = readField(b, 12)
	m.Nt = readField(b, 20)
	m.Domain = readField(b, 28)
	m.User = readField(b, 36)
	m.Workstation = readField(b, 44)
	m.SessKey = readField(b, 52)
	m.Flags = binary.LittleEndian.Uint32(b[60:])
	first := minOffset(len(b), m.Lm, m.Nt, m.Domain, m.User, m.Workstation, m.SessKey)
	m.Fixed = 64
	if first >= 72 && len(b) >= 72 {
		copy(m.Version[:], b[64:72])
		m.Fixed = 72
	}
	if first >= 88 && len(b) >= 88 {
		copy(m.MIC[:], b[72:88])
		m.Fixed = 88
	}
	return m, nil
}

func (m *AuthenticateMsg) Fields() []NamedField {
	return []NamedField{{"LmChallengeResponse", m.Lm}, {"NtChallengeResponse", m.Nt}, {"DomainName", m.Domain},
		{"UserName", m.User}, {"Workstation", m.Workstation}, {"EncryptedRandomSessionKey", m.SessKey}}
}

// ------------------------------------------------------------------ CHALLENGE (2.2.1.2)

type Challenge struct {
	TargetName      []byte
	Flags           uint32
	ServerChallenge [8]byte
	Reserved        [8]byte
	TargetInfo      []byte
	Version         [8]byte

	// layout choices of the encoder (all legal: receivers locate payload only through offsets,
	// MaxLen "MUST be ignored on receipt")
	InfoFirst   bool   // TargetInfo bytes placed before TargetName bytes
	Gap         int    // unused bytes between the 56-byte fixed part and the payload; -8: no Version slot at all, the payload starts at offset 48 (the pre-Version layout; only for messages without NEGOTIATE_VERSION)
	MaxLenExtra uint16 // MaxLen = Len + MaxLenExtra
}

// EncodeChallenge emits a well-formed CHALLENGE_MESSAGE with a 56-byte fixed part.
func EncodeChallenge(c *Challenge) []byte {
	b := make([]byte, 56+c.Gap)
	copy(b, Signature)
	binary.LittleEndian.PutUint32(b[8:], 2)
	binary.LittleEndian.PutUint32(b[20:], c.Flags)
	copy(b[24:32], c.ServerChallenge[:])
	copy(b[32:40], c.Reserved[:])
	if len(b) >= 56 {
		copy(b[48:56], c.Version[:])
	}
	for i := 56; i < len(b); i++ {
		b[i] = 0xEE
	}
	put := func(at int, data []byte) {
		binary.LittleEndian.PutUint16(b[at:], uint16(len(data)))
		binary.LittleEndian.PutUint16(b[at+2:], uint16(len(data))+c.MaxLenExtra)
		binary.LittleEndian.PutUint32(b[at+4:], uint32(len(b)))
		b = append(b, data...)
	}
	if c.InfoFirst {
		put(40, c.TargetInfo)
		put(12, c.TargetName)
	} else {
		put(12, c.TargetName)
		put(40, c.TargetInfo)
	}
	return b
}

// ParseChallenge is the reference reader (used by the self-test and to double-check the encoder).
func ParseChallenge(b []byte) (*Challenge, error) {
	if len(b) < 48 {
		return nil, fmt.Errorf("CHALLENGE_MESSAGE of %d bytes is too short", len(b))
	}
	if !bytes.Equal(b[:8], Signature) || binary.LittleEndian.Uint32(b[8:]) != 2 {
		return nil, errors.New("bad signature or message type")
	}
	c := &Challenge{Flags: binary.LittleEndian.Uint32(b[20:])}
	copy(c.ServerChallenge[:], b[24:32])
	copy(c.Reserved[:], b[32:40])
	tn, ti := readField(b, 12), readField(b, 40)
	var ok bool
	if c.TargetName, ok = tn.Slice(b); !ok {
		return nil, errors.New("TargetName out of bounds")
	}
	if c.TargetInfo, ok = ti.Slice(b); !ok {
		return nil, errors.New("TargetInfo out of bounds")
	}
	if len(b) >= 56 && minOffset(len(b), tn, ti) >= 56 {
		copy(c.Version[:], b[48:56])
	}
	return c, nil
}

// ------------------------------------------------------------------ DER (X.690)

// DERLen encodes a definite length in the minimum number of octets (X.690 10.1).
func DERLen(n int) []byte {
	if n < 0x80 {
		return []byte{byte(n)}
	}
	var tmp []byte
	for v := n; v > 0; v >>= 8 {
		tmp = append([]byte{byte(v)}, tmp...)
	}
	return append([]byte{0x80 | byte(len(tmp))}, tmp...)
}

// TLV encodes one element with a single-octet identifier.
func TLV(tag byte, content ...[]byte) []byte {
	n := 0
	for _, c := range content {
		n += len(c)
	}
	out := append([]byte{tag}, DERLen(n)...)
	for _, c := range content {
		out = append(out, c...)
	}
	return out
}

// Node is a decoded DER element.
type Node struct {
	Tag      byte
	HdrLen   int
	Content  []byte
	Children []Node // for constructed encodings
}

// ReadDER reads exactly one element from the front of b, recursively, enforcing DER length
// rules: definite form, shortest length encoding, content inside the buffer, children of a
// constructed element tile its content exactly. High tag numbers (>=31) are not supported.
func ReadDER(b []byte) (Node, []byte, error) {
	return readDER(b, 0)
}

func readDER(b []byte, depth int) (Node, []byte, error) {
	var n Node
	if depth > 32 {
		return n, nil, errors.New("nesting deeper than 32")
	}
	if len(b) < 2 {
		return n, nil, fmt.Errorf("truncated element header (%d bytes)", len(b))
	}
	n.Tag = b[0]
	if n.Tag&0x1f == 0x1f {
		return n, nil, errors.New("high tag number form not supported")
	}
	l := int(b[1])
	hdr := 2
	switch {
	case l < 0x80:
	case l == 0x80:
		return n, nil, errors.New("indefinite length is not DER")
	default:
		k := l & 0x7f
		if k > 4 {
			return n, nil, fmt.Errorf("length of length %d not supported", k)
		}
		if len(b) < 2+k {
			return n, nil, errors.New("truncated long-form length")
		}
		l = 0
		for i := 0; i < k; i++ {
			l = l<<8 | int(b[2+i])
		}
		if b[2] == 0 {
			return n, nil, errors.New("long-form length with a leading zero octet is not minimal")
		}
		if l < 0x80 {
			return n, nil, fmt.Errorf("length %d encoded in long form is not minimal", l)
		}
		hdr = 2 + k
	}
	if hdr+l > len(b) {
		return n, nil, fmt.Errorf("element tag 0x%02x: length %d exceeds the %d bytes that remain", n.Tag, l, len(b)-hdr)
	}
	n.HdrLen = hdr
	n.Content = b[hdr : hdr+l]
	if n.Tag&0x20 != 0 {
		rest := n.Content
		for len(rest) > 0 {
			ch, r, err := readDER(rest, depth+1)
			if err != nil {
				return n, nil, fmt.Errorf("inside tag 0x%02x: %v", n.Tag, err)
			}
			n.Children = append(n.Children, ch)
			rest = r
		}
	}
	return n, b[hdr+l:], nil
}

// OIDs, DER-encoded content octets.
var (
	OIDSpnego = []byte{0x2b, 0x06, 0x01, 0x05, 0x05, 0x02}                         // 1.3.6.1.5.5.2
	OIDNtlm   = []byte{0x2b, 0x06, 0x01, 0x04, 0x01, 0x82, 0x37, 0x02, 0x02, 0x0a} // 1.3.6.1.4.1.311.2.2.10
)

// WrapInitLib frames token the way the library's own CreateNegTokenInit does
// (0x60 { OID spnego, SEQUENCE { [0]{SEQUENCE{OID ntlm}}, [2]{OCTET STRING token} } }) with
// the reference DER encoder. (RFC 4178 additionally wraps the SEQUENCE in [0]; the library's
// reader does not accept that form, see notes/C08.md.)
func WrapInitLib(token []byte) []byte {
	seq := TLV(0x30, TLV(0xa0, TLV(0x30, TLV(0x06, OIDNtlm))), TLV(0xa2, TLV(0x04, token)))
	return TLV(0x60, TLV(0x06, OIDSpnego), seq)
}

// WrapRespLib frames token the way the library's CreateNegTokenResp does
// (0x60 { OID spnego, SEQUENCE { [0]{ENUMERATED state}?, [1]{OID ntlm}?, [2]{OCTET STRING} } }).
// state < 0 omits negState; withMech=false omits supportedMech.
func WrapRespLib(state int, withMech bool, token []byte) []byte {
	var parts [][]byte
	if state >= 0 {
		parts = append(parts, TLV(0xa0, TLV(0x0a, []byte{byte(state)})))
	}
	if withMech {
		parts = append(parts, TLV(0xa1, TLV(0x06, OIDNtlm)))
	}
	parts = append(parts, TLV(0xa2, TLV(0x04, token)))
	return TLV(0x60, TLV(0x06, OIDSpnego), TLV(0x30, parts...))
}

// SpnegoInfo is what the reference reader finds in a GSS-API/SPNEGO frame.
type SpnegoInfo struct {
	OuterLen   int    // declared content length of the 0x60 element
	OID        []byte // content of the first OID
	Token      []byte // content of the OCTET STRING under [2]
	HasToken   bool
	NegState   int // -1 if absent
	InnerTag   byte
	TotalBytes int
}

// ReadSpnego strictly reads 0x60 { OID, X } where X is a SEQUENCE or a context-tagged
// [0]/[1] wrapper around one, and returns the OCTET STRING under [2]. The whole input must be
// consumed.
func ReadSpnego(b []byte) (*SpnegoInfo, error) {
	n, rest, err := ReadDER(b)
	if err != nil {
		return nil, err
	}
	if len(rest) != 0 {
		return nil, fmt.Errorf("%d bytes after the outer element", len(rest))
	}
	if n.Tag != 0x60 {
		return nil, fmt.Errorf("outer tag 0x%02x, want 0x60", n.Tag)
	}
	if len(n.Children) != 2 || n.Children[0].Tag != 0x06 {
		return nil, fmt.Errorf("outer element has %d children; want OID + negotiation token", len(n.Children))
	}
	info := &SpnegoInfo{OuterLen: len(n.Content), OID: n.Children[0].Content, NegState: -1, TotalBytes: len(b)}
	body := n.Children[1]
	info.InnerTag = body.Tag
	if body.Tag == 0xa0 || body.Tag == 0xa1 {
		if len(body.Children) != 1 {
			return nil, errors.New("choice wrapper without exactly one child")
		}
		body = body.Children[0]
	}
	if body.Tag != 0x30 {
		return nil, fmt.Errorf("negotiation token tag 0x%02x, want SEQUENCE", body.Tag)
	}
	for _, ch := range body.Children {
		switch ch.Tag {
		case 0xa0:
			if len(ch.Children) == 1 && ch.Children[0].Tag == 0x0a && len(ch.Children[0].Content) == 1 {
				info.NegState = int(ch.Children[0].Content[0])
			}
		case 0xa2:
			if len(ch.Children) != 1 || ch.Children[0].Tag != 0x04 {
				return nil, errors.New("[2] does not hold one primitive OCTET STRING")
			}
			info.Token = ch.Children[0].Content
			info.HasToken = true
		}
	}
	return info, nil
}

// ------------------------------------------------------------------ self-test

func unhex(s string) []byte {
	var clean []byte
	for i := 0; i < len(s); i++ {
		if s[i] != ' ' && s[i] != '\n' && s[i] != '\t' {
			clean = append(clean, s[i])
		}
	}
	b, err := hex.DecodeString(string(clean))
	if err != nil {
		panic(err)
	}
	return b
}

// MS-NLMP 4.2.4 (NTLMv2 authentication example): User "User", UserDom "Domain", Password
// "Password", server name "Server", workstation "COMPUTER", ServerChallenge 0123456789abcdef,
// ClientChallenge aa*8, Time 0.
const (
	nlmpChallengeMsg = `4e 54 4c 4d 53 53 50 00 02 00 00 00 0c 00 0c 00 38 00 00 00 33 82 8a e2
		01 23 45 67 89 ab cd ef 00 00 00 00 00 00 00 00 24 00 24 00 44 00 00 00 06 00 70 17 00 00 00 0f
		53 00 65 00 72 00 76 00 65 00 72 00
		02 00 0c 00 44 00 6f 00 6d 00 61 00 69 00 6e 00 01 00 0c 00 53 00 65 00 72 00 76 00 65 00 72 00 00 00 00 00`
	nlmpTemp = `01 01 00 00 00 00 00 00 00 00 00 00 00 00 00 00 aa aa aa aa aa aa aa aa 00 00 00 00
		02 00 0c 00 44 00 6f 00 6d 00 61 00 69 00 6e 00 01 00 0c 00 53 00 65 00 72 00 76 00 65 00 72 00 00 00 00 00 00 00 00 00`
	nlmpNTProof = `68 cd 0a b8 51 e5 1c 96 aa bc 92 7b eb ef 6a 1c`
	nlmpLMv2    = `86 c3 50 97 ac 9c ec 10 25 54 76 4a 57 cc cc 19 aa aa aa aa aa aa aa aa`
	nlmpAuthMsg = `4e 54 4c 4d 53 53 50 00 03 00 00 00 18 00 18 00 6c 00 00 00 54 00 54 00 84 00 00 00
		0c 00 0c 00 48 00 00 00 08 00 08 00 54 00 00 00 10 00 10 00 5c 00 00 00 10 00 10 00 d8 00 00 00
		35 82 88 e2 05 01 28 0a 00 00 00 0f
		44 00 6f 00 6d 00 61 00 69 00 6e 00 55 00 73 00 65 00 72 00 43 00 4f 00 4d 00 50 00 55 00 54 00 45 00 52 00
		86 c3 50 97 ac 9c ec 10 25 54 76 4a 57 cc cc 19 aa aa aa aa aa aa aa aa
		68 cd 0a b8 51 e5 1c 96 aa bc 92 7b eb ef 6a 1c
		01 01 00 00 00 00 00 00 00 00 00 00 00 00 00 00 aa aa aa aa aa aa aa aa 00 00 00 00
		02 00 0c 00 44 00 6f 00 6d 00 61 00 69 00 6e 00 01 00 0c 00 53 00 65 00 72 00 76 00 65 00 72 00 00 00 00 00 00 00 00 00
		c5 da d2 54 4f c9 79 90 94 ce 1c e9 0b c9 d0 3e`
)

func SelfTest() error {
	if err := rc.SelfTest(); err != nil {
		return err
	}
	fail := func(f string, a ...any) error { return fmt.Errorf("refntlm self-test: "+f, a...) }
	nt := rc.NT("Password")
	sc := unhex("0123456789abcdef")
	temp := unhex(nlmpTemp)
	proof := unhex(nlmpNTProof)

	// 4.2.4.2.2 NTLMv2 response
	resp := append(append([]byte{}, proof...), temp...)
	v := VerifyNTLMv2(nt, "User", "Domain", sc, resp)
	if !v.ProofOK || v.BlobErr != nil {
		return fail("MS-NLMP 4.2.4.2.2 response not accepted: proofOK=%v want=%x blobErr=%v", v.ProofOK, v.Want, v.BlobErr)
	}
	if v.Blob.Time != 0 || !bytes.Equal(v.Blob.ClientChallenge[:], unhex("aaaaaaaaaaaaaaaa")) || len(v.Blob.Pairs) != 2 ||
		v.Blob.Pairs[0].ID != 2 || v.Blob.Pairs[1].ID != 1 || len(v.Blob.Trailer) != 4 {
		return fail("blob of 4.2.4.1.3 parsed as %+v", v.Blob)
	}
	if s, err := DecodeUTF16LE(v.Blob.Pairs[0].Value); err != nil || s != "Domain" {
		return fail("MsvAvNbDomainName decoded as %q %v", s, err)
	}
	// the verifier must be case-sensitive in the domain and case-insensitive in the user
	if !VerifyNTLMv2(nt, "uSER", "Domain", sc, resp).ProofOK || VerifyNTLMv2(nt, "User", "DOMAIN", sc, resp).ProofOK || VerifyNTLMv2(rc.NT("password"), "User", "Domain", sc, resp).ProofOK {
		return fail("verifier case rules wrong")
	}
	// negative blob cases
	bad := append([]byte{}, temp...)
	bad[0] = 2
	if _, err := ParseClientBlob(bad); err == nil {
		return fail("RespType 2 accepted")
	}
	if _, err := ParseClientBlob(temp[:len(temp)-8]); err == nil {
		return fail("blob without MsvAvEOL accepted")
	}
	raw := append(append([]byte{}, temp[:28]...), rc.UTF16LE("corp")...)
	raw = append(raw, 0, 0, 0, 0)
	if _, err := ParseClientBlob(raw); err == nil {
		return fail("blob with a raw UTF-16 name in place of AV pairs accepted")
	}
	// 4.2.4.2.1 LMv2 response
	if !VerifyLMv2(nt, "User", "Domain", sc, unhex(nlmpLMv2)) {
		return fail("MS-NLMP 4.2.4.2.1 LMv2 response not accepted")
	}

	// 4.2.4.3 CHALLENGE_MESSAGE: the encoder must reproduce the published bytes, the reader must return the values
	cm := unhex(nlmpChallengeMsg)
	want := &Challenge{TargetName: rc.UTF16LE("Server"), Flags: 0xe28a8233,
		TargetInfo: EncodeAvPairs([]AvPair{{2, rc.UTF16LE("Domain")}, {1, rc.UTF16LE("Server")}})}
	copy(want.ServerChallenge[:], sc)
	copy(want.Version[:], unhex("060070170000000f"))
	if got := EncodeChallenge(want); !bytes.Equal(got, cm) {
		return fail("EncodeChallenge does not reproduce MS-NLMP 4.2.4.3:\n got %x\nwant %x", got, cm)
	}
	pc, err := ParseChallenge(cm)
	if err != nil || !bytes.Equal(pc.TargetName, want.TargetName) || pc.Flags != want.Flags || pc.ServerChallenge != want.ServerChallenge ||
		!bytes.Equal(pc.TargetInfo, want.TargetInfo) || pc.Version != want.Version {
		return fail("ParseChallenge(4.2.4.3) = %+v, %v", pc, err)
	}
	// every layout variant of the encoder must read back identically with the reference reader
	for _, infoFirst := range []bool{false, true} {
		for _, gap := range []int{0, 3} {
			for _, extra := range []uint16{0, 8} {
				w := *want
				w.InfoFirst, w.Gap, w.MaxLenExtra = infoFirst, gap, extra
				pc, err := ParseChallenge(EncodeChallenge(&w))
				if err != nil || !bytes.Equal(pc.TargetName, w.TargetName) || !bytes.Equal(pc.TargetInfo, w.TargetInfo) || pc.Version != w.Version || pc.Flags != w.Flags {
					return fail("encoder variant infoFirst=%v gap=%d extra=%d does not read back: %+v %v", infoFirst, gap, extra, pc, err)
				}
			}
		}
	}

	// 4.2.4.3 AUTHENTICATE_MESSAGE (72-byte fixed part, no MIC)
	am := unhex(nlmpAuthMsg)
	a, err := ParseAuthenticate(am)
	if err != nil || !a.SigOK || a.Type != 3 || a.Fixed != 72 || a.Flags != 0xe2888235 {
		return fail("ParseAuthenticate(4.2.4.3) = %+v, %v", a, err)
	}
	if p := CheckLayout(len(am), a.Fixed, a.Fields()); len(p) != 0 {
		return fail("layout problems in MS-NLMP 4.2.4.3 AUTHENTICATE: %+v", p)
	}
	dom, _ := a.Domain.Slice(am)
	usr, _ := a.User.Slice(am)
	ws, _ := a.Workstation.Slice(am)
	ntr, _ := a.Nt.Slice(am)
	lmr, _ := a.Lm.Slice(am)
	ds, _ := DecodeUTF16LE(dom)
	us, _ := DecodeUTF16LE(usr)
	wss, _ := DecodeUTF16LE(ws)
	if ds != "Domain" || us != "User" || wss != "COMPUTER" {
		return fail("names of 4.2.4.3 AUTHENTICATE decoded as %q %q %q", ds, us, wss)
	}
	if v := VerifyNTLMv2(nt, us, ds, sc, ntr); !v.ProofOK || v.BlobErr != nil {
		return fail("NtChallengeResponse of 4.2.4.3 AUTHENTICATE not accepted: %+v", v)
	}
	if !VerifyLMv2(nt, us, ds, sc, lmr) {
		return fail("LmChallengeResponse of 4.2.4.3 AUTHENTICATE not accepted")
	}
	// layout checker negatives
	probs := CheckLayout(100, 88, []NamedField{{"a", Field{10, 10, 88}}, {"b", Field{10, 10, 97}}, {"c", Field{4, 2, 60}}, {"d", Field{8, 8, 96}}})
	kinds := map[string]bool{}
	for _, p := range probs {
		kinds[p.Field+":"+p.Kind] = true
	}
	for _, k := range []string{"a:overlap", "b:out-of-bounds", "c:maxlen-below-len", "c:inside-header", "d:out-of-bounds"} {
		if !kinds[k] {
			return fail("CheckLayout missed %s (reported %v)", k, probs)
		}
	}

	// X.690 8.1.3 length forms
	for n, h := range map[int]string{0: "00", 1: "01", 127: "7f", 128: "8180", 255: "81ff", 256: "820100", 65535: "82ffff", 65536: "83010000", 131073: "83020001"} {
		if got := hex.EncodeToString(DERLen(n)); got != h {
			return fail("DERLen(%d) = %s want %s", n, got, h)
		}
	}
	for _, n := range []int{0, 1, 127, 128, 255, 256, 65535, 65536, 131073} {
		tok := make([]byte, n)
		for i := range tok {
			tok[i] = byte(i*7 + 1)
		}
		for _, fr := range [][]byte{WrapInitLib(tok), WrapRespLib(1, true, tok), WrapRespLib(-1, false, tok)} {
			info, err := ReadSpnego(fr)
			if err != nil || !info.HasToken || !bytes.Equal(info.Token, tok) || !bytes.Equal(info.OID, OIDSpnego) {
				return fail("ReadSpnego(Wrap(len %d)): %v", n, err)
			}
		}
	}
	// strictness of the DER reader
	for _, bad := range []string{"04810100", "0482000100", "048000", "0403aabb", "30030401"} {
		if _, _, err := ReadDER(unhex(bad)); err == nil {
			return fail("ReadDER accepted non-DER input %s", bad)
		}
	}
	// a hand-assembled RFC 4178 frame (0x60 { OID, [0] { SEQUENCE { [0] mechTypes, [2] mechToken } } }) as Windows clients send it
	frame := unhex("604806062b0601050502a03e303ca00e300c060a2b06010401823702020aa22a04284e544c4d5353500001000000978208e2000000000000000000000000000000000a00ba470000000f")
	info, err := ReadSpnego(frame)
	if err != nil || info.InnerTag != 0xa0 || len(info.Token) != 40 || !bytes.Equal(info.Token[:8], Signature) {
		return fail("ReadSpnego(RFC 4178 NegTokenInit): %+v %v", info, err)
	}
	return crossCheckThirdParty()
}
