// Package enum holds the finite, explicitly described input lattices (E4).
// Everything is deterministic and ordered simplest-first.
package enum

import "sort"

// Bits1 returns all n-bit words (n<=64) with exactly one bit set.
func Bits1(n int) []uint64 {
	out := make([]uint64, 0, n)
	for i := 0; i < n; i++ {
		out = append(out, 1<<uint(i))
	}
	return out
}

// Bits2 returns all n-bit words with exactly two bits set.
func Bits2(n int) []uint64 {
	var out []uint64
	for i := 0; i < n; i++ {
		for j := i + 1; j < n; j++ {
			out = append(out, 1<<uint(i)|1<<uint(j))
		}
	}
	return out
}

func mask(n int) uint64 {
	if n >= 64 {
		return ^uint64(0)
	}
	return 1<<uint(n) - 1
}

// Words is 0, all-ones, Bits1, Bits2 and their complements (deduplicated).
func Words(n int) []uint64 {
	m := mask(n)
	seen := map[uint64]bool{}
	var out []uint64
	add := func(v uint64) {
		v &= m
		if !seen[v] {
			seen[v] = true
			out = append(out, v)
		}
	}
	add(0)
	add(m)
	for _, v := range Bits1(n) {
		add(v)
	}
	for _, v := range Bits1(n) {
		add(^v)
	}
	for _, v := range Bits2(n) {
		add(v)
	}
	for _, v := range Bits2(n) {
		add(^v)
	}
	return out
}

// Pow2 returns 2^k-1, 2^k, 2^k+1 for k in [0,bits), masked, deduplicated, plus 0 and max.
func Pow2(bits int) []uint64 {
	m := mask(bits)
	seen := map[uint64]bool{}
	var out []uint64
	add := func(v uint64) {
		v &= m
		if !seen[v] {
			seen[v] = true
			out = append(out, v)
		}
	}
	add(0)
	for k := 0; k < bits; k++ {
		p := uint64(1) << uint(k)
		add(p - 1)
		add(p)
		add(p + 1)
	}
	add(m)
	add(m - 1)
	return out
}

// Around returns x-d..x+d for each x (int64, saturating at the type limits).
func Around(d int64, xs ...int64) []int64 {
	seen := map[int64]bool{}
	var out []int64
	for _, x := range xs {
		for k := -d; k <= d; k++ {
			v := x + k
			if (k > 0 && v < x) || (k < 0 && v > x) {
				continue // overflow
			}
			if !seen[v] {
				seen[v] = true
				out = append(out, v)
			}
		}
	}
	return out
}

// ByteDistinct returns values whose bytes are pairwise distinct for a width in bytes.
func ByteDistinct(width int) []uint64 {
	switch width {
	case 1:
		return []uint64{0x01, 0x80, 0xFE}
	case 2:
		return []uint64{0x0102, 0xFEFD, 0x8001, 0x00FF, 0xFF00}
	case 4:
		return []uint64{0x01020304, 0xFEFDFCFB, 0x80000001, 0x000000FF, 0xFF000000, 0x00FF0000}
	default:
		return []uint64{0x0102030405060708, 0xFEFDFCFBFAF9F8F7, 0x8000000000000001, 0x00000000000000FF, 0xFF00000000000000}
	}
}

// BytePos returns every n-byte buffer that differs from an all-bg background in one
// position, for every position and every value in vals.
func BytePos(n int, bg byte, vals []byte) [][]byte {
	var out [][]byte
	for p := 0; p < n; p++ {
		for _, v := range vals {
			if v == bg {
				continue
			}
			b := make([]byte, n)
			for i := range b {
				b[i] = bg
			}
			b[p] = v
			out = append(out, b)
		}
	}
	return out
}

// AllBytes is 0..255.
func AllBytes() []byte {
	b := make([]byte, 256)
	for i := range b {
		b[i] = byte(i)
	}
	return b
}

// Counter returns n bytes start, start+1, ... (every offset distinguishable).
func Counter(n int, start byte) []byte {
	b := make([]byte, n)
	for i := range b {
		b[i] = start + byte(i)
	}
	return b
}

// Fill returns n copies of v.
func Fill(n int, v byte) []byte {
	b := make([]byte, n)
	for i := range b {
		b[i] = v
	}
	return b
}

// Strings returns all strings over alphabet (given as []string symbols) up to length n, shortest first.
func Strings(alpha []string, n int) []string {
	out := []string{""}
	prev := []string{""}
	for l := 1; l <= n; l++ {
		var cur []string
		for _, p := range prev {
			for _, a := range alpha {
				cur = append(cur, p+a)
			}
		}
		out = append(out, cur...)
		prev = cur
	}
	return out
}

// ByteStrings returns all byte strings over alpha up to length n, shortest first.
func ByteStrings(alpha []byte, n int) [][]byte {
	out := [][]byte{{}}
	prev := [][]byte{{}}
	for l := 1; l <= n; l++ {
		var cur [][]byte
		for _, p := range prev {
			for _, a := range alpha {
				q := make([]byte, len(p)+1)
				copy(q, p)
				q[len(p)] = a
				cur = append(cur, q)
			}
		}
		out = append(out, cur...)
		prev = cur
	}
	return out
}

// Lengths returns the sorted, deduplicated union of lo..hi and extra.
func Lengths(lo, hi int, extra ...int) []int {
	seen := map[int]bool{}
	var out []int
	for i := lo; i <= hi; i++ {
		if !seen[i] {
			seen[i] = true
			out = append(out, i)
		}
	}
	for _, e := range extra {
		if e >= 0 && !seen[e] {
			seen[e] = true
			out = append(out, e)
		}
	}
	sort.Ints(out)
	return out
}

// Compositions calls fn with every composition (ordered split) of n into positive parts;
// there are 2^(n-1) of them. n<=24 is sensible.
func Compositions(n int, fn func(parts []int)) {
	if n == 0 {
		fn(nil)
		return
	}
	for m := uint64(0); m < 1<<uint(n-1); m++ {
		var parts []int
		run := 1
		for i := 0; i < n-1; i++ {
			if m>>uint(i)&1 == 1 {
				parts = append(parts, run)
				run = 1
			} else {
				run++
			}
		}
		parts = append(parts, run)
		fn(parts)
	}
}

// U128 lattice: 16-byte values with one bit, two bits, byte positions.
func U128Lattice(twoBits bool) [][16]byte {
	seen := map[[16]byte]bool{}
	var out [][16]byte
	add := func(b [16]byte) {
		if !seen[b] {
			seen[b] = true
			out = append(out, b)
		}
	}
	var z, f [16]byte
	for i := range f {
		f[i] = 0xff
	}
	add(z)
	add(f)
	var c [16]byte
	for i := range c {
		c[i] = byte(0x10*i + i + 1)
	}
	add(c)
	for i := 0; i < 128; i++ {
		b := z
		b[i/8] |= 1 << uint(i%8)
		add(b)
		g := f
		g[i/8] &^= 1 << uint(i%8)
		add(g)
	}
	for p := 0; p < 16; p++ {
		for v := 0; v < 256; v++ {
			b := z
			b[p] = byte(v)
			add(b)
			g := f
			g[p] = byte(v)
			add(g)
		}
	}
	if twoBits {
		for i := 0; i < 128; i++ {
			for j := i + 1; j < 128; j++ {
				b := z
				b[i/8] |= 1 << uint(i%8)
				b[j/8] |= 1 << uint(j%8)
				add(b)
			}
		}
	}
	return out
}
