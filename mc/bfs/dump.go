package bfs

import (
	"fmt"
	"reflect"
	"sort"
	"strings"
	"unsafe"
)

// Dump renders EVERY field of v (exported or not, through pointers, slices incl. their capacity,
// maps in sorted order) as a canonical string. It is the default state key of the object-level
// searches: two objects with equal dumps hold the same data in every place a method could read,
// so they have the same futures (the key is possibly over-fine, which only costs time).
// Functions, channels and unsafe pointers are rendered by nil-ness only; sync primitives by type name.
func Dump(v any) string {
	var sb strings.Builder
	dump(&sb, reflect.ValueOf(v), 0, map[uintptr]bool{})
	return sb.String()
}

func accessible(v reflect.Value) reflect.Value {
	if v.CanInterface() || !v.CanAddr() {
		return v
	}
	return reflect.NewAt(v.Type(), unsafe.Pointer(v.UnsafeAddr())).Elem()
}

func dump(sb *strings.Builder, v reflect.Value, depth int, seen map[uintptr]bool) {
	if depth > 12 {
		sb.WriteString("<deep>")
		return
	}
	if !v.IsValid() {
		sb.WriteString("<nil>")
		return
	}
	switch v.Kind() {
	case reflect.Bool:
		fmt.Fprintf(sb, "%v", v.Bool())
	case reflect.Int, reflect.Int8, reflect.Int16, reflect.Int32, reflect.Int64:
		fmt.Fprintf(sb, "%d", v.Int())
	case reflect.Uint, reflect.Uint8, reflect.Uint16, reflect.Uint32, reflect.Uint64, reflect.Uintptr:
		fmt.Fprintf(sb, "%d", v.Uint())
	case reflect.Float32, reflect.Float64:
		fmt.Fprintf(sb, "%g", v.Float())
	case reflect.String:
		fmt.Fprintf(sb, "%q", v.String())
	case reflect.Ptr:
		if v.IsNil() {
			sb.WriteString("nil")
			return
		}
		p := v.Pointer()
		if seen[p] {
			sb.WriteString("<cycle>")
			return
		}
		seen[p] = true
		sb.WriteString("&")
		dump(sb, v.Elem(), depth+1, seen)
		delete(seen, p)
	case reflect.Interface:
		if v.IsNil() {
			sb.WriteString("nil")
			return
		}
		fmt.Fprintf(sb, "(%s)", v.Elem().Type())
		dump(sb, v.Elem(), depth+1, seen)
	case reflect.Struct:
		t := v.Type()
		if strings.HasPrefix(t.PkgPath(), "sync") {
			fmt.Fprintf(sb, "<%s>", t)
			return
		}
		sb.WriteString("{")
		for i := 0; i < v.NumField(); i++ {
			f := v.Field(i)
			if !f.CanInterface() {
				if !v.CanAddr() {
					// make an addressable copy so that unexported fields can be read
					cp := reflect.New(t).Elem()
					cp.Set(v)
					v = cp
					f = v.Field(i)
				}
				f = accessible(f)
			}
			fmt.Fprintf(sb, "%s:", t.Field(i).Name)
			dump(sb, f, depth+1, seen)
			sb.WriteString(" ")
		}
		sb.WriteString("}")
	case reflect.Slice:
		if v.IsNil() {
			sb.WriteString("nil[]")
			return
		}
		fmt.Fprintf(sb, "[len=%d cap=%d:", v.Len(), v.Cap())
		if v.Type().Elem().Kind() == reflect.Uint8 {
			full := v.Slice(0, v.Cap()) // bytes beyond len are state too (append writes there)
			fmt.Fprintf(sb, "%x", full.Bytes())
		} else {
			for i := 0; i < v.Len(); i++ {
				dump(sb, v.Index(i), depth+1, seen)
				sb.WriteString(",")
			}
		}
		sb.WriteString("]")
	case reflect.Array:
		if v.Type().Elem().Kind() == reflect.Uint8 {
			b := make([]byte, v.Len())
			for i := range b {
				b[i] = byte(v.Index(i).Uint())
			}
			fmt.Fprintf(sb, "%x", b)
			return
		}
		sb.WriteString("[")
		for i := 0; i < v.Len(); i++ {
			dump(sb, v.Index(i), depth+1, seen)
			sb.WriteString(",")
		}
		sb.WriteString("]")
	case reflect.Map:
		if v.IsNil() {
			sb.WriteString("nil-map")
			return
		}
		var items []string
		it := v.MapRange()
		for it.Next() {
			var kb, vb strings.Builder
			dump(&kb, it.Key(), depth+1, seen)
			dump(&vb, it.Value(), depth+1, seen)
			items = append(items, kb.String()+"=>"+vb.String())
		}
		sort.Strings(items)
		sb.WriteString("map{" + strings.Join(items, ";") + "}")
	case reflect.Func, reflect.Chan, reflect.UnsafePointer:
		if v.IsNil() {
			sb.WriteString("nil")
		} else {
			fmt.Fprintf(sb, "<%s>", v.Kind())
		}
	default:
		fmt.Fprintf(sb, "<%s>", v.Kind())
	}
}
