// Package bfs is E2: explicit-state breadth-first search whose states are real
// implementation objects. Because live objects rarely copy, a state is represented
// by the shortest operation path reaching it; a successor is "replay the path on a
// fresh instance, apply one more operation". The caller supplies the canonical key.
package bfs

import (
	"runtime"
	"sync"
)

type Search struct {
	NOps int
	// Step replays path on a fresh instance, applies op (running the oracle on every
	// replayed and new transition as it sees fit) and returns the canonical key of the
	// successor. enabled=false means op is not applicable in that state.
	Step func(path []int, op int) (key string, enabled bool)
	// InitKey is the canonical key of the initial state.
	InitKey   string
	MaxDepth  int // 0 = until fix-point
	MaxStates int // 0 = unlimited
	Stop      func() bool
	Workers   int // parallel successor computation (Step must be goroutine-safe); 0 = NumCPU
}

type Result struct {
	States      int
	Transitions int
	Depth       int
	FixPoint    bool // frontier emptied: every reachable state was expanded
	CapHit      bool
	SamplePaths [][]int
}

type succ struct {
	key  string
	ok   bool
	path []int
}

func (s *Search) Run() Result {
	seen := map[string]struct{}{s.InitKey: {}}
	frontier := [][]int{{}}
	res := Result{States: 1}
	w := s.Workers
	if w <= 0 {
		w = runtime.NumCPU()
	}
	for depth := 0; len(frontier) > 0; depth++ {
		if s.MaxDepth > 0 && depth >= s.MaxDepth {
			return res
		}
		if s.Stop != nil && s.Stop() {
			res.CapHit = true
			return res
		}
		// expand the whole level in parallel, merge deterministically
		out := make([][]succ, len(frontier))
		var wg sync.WaitGroup
		ch := make(chan int, 256)
		for k := 0; k < w; k++ {
			wg.Add(1)
			go func() {
				defer wg.Done()
				for i := range ch {
					p := frontier[i]
					ss := make([]succ, s.NOps)
					for op := 0; op < s.NOps; op++ {
						key, ok := s.Step(p, op)
						ss[op] = succ{key: key, ok: ok}
					}
					out[i] = ss
				}
			}()
		}
		for i := range frontier {
			ch <- i
		}
		close(ch)
		wg.Wait()
		var next [][]int
		for i, ss := range out {
			for op, x := range ss {
				if !x.ok {
					continue
				}
				res.Transitions++
				if _, dup := seen[x.key]; dup {
					continue
				}
				if s.MaxStates > 0 && res.States >= s.MaxStates {
					res.CapHit = true
					continue
				}
				seen[x.key] = struct{}{}
				res.States++
				np := make([]int, len(frontier[i])+1)
				copy(np, frontier[i])
				np[len(np)-1] = op
				next = append(next, np)
				if len(res.SamplePaths) < 3 || (len(np) > res.Depth && len(res.SamplePaths) < 8) {
					res.SamplePaths = append(res.SamplePaths, np)
				}
				if len(np) > res.Depth {
					res.Depth = len(np)
				}
			}
		}
		frontier = next
	}
	res.FixPoint = !res.CapHit
	return res
}
