// Package explore is E1: a stateless, deviation-bounded explorer over a choice tree.
//
// A body is a deterministic function of its choice sequence. It calls c.Choose(n)
// wherever the environment or the input generator has alternatives. Alternative 0
// is the default; every other alternative costs cost(alt) deviations (default 1).
package explore

import (
	"fmt"
	"hash/fnv"
)

type point struct {
	n     int
	cost  []int // cost of each alternative (cost[0] == 0)
	label string
}

// Run is one execution.
type Run struct {
	prefix  []int
	Choices []int
	points  []point
	obs     []byte
	Err     error // replay divergence
}

// Choose returns the alternative taken at this point.
func (r *Run) Choose(n int, label string) int { return r.ChooseCost(n, label, nil) }

// ChooseCost is Choose with explicit per-alternative deviation costs.
func (r *Run) ChooseCost(n int, label string, cost []int) int {
	if n <= 0 {
		panic("explore: Choose with n<=0")
	}
	i := len(r.Choices)
	c := 0
	if i < len(r.prefix) {
		c = r.prefix[i]
		if c >= n {
			r.Err = fmt.Errorf("replay divergence at point %d (%s): choice %d out of range %d", i, label, c, n)
			panic(divergence{r.Err})
		}
	}
	cc := make([]int, n)
	for k := 1; k < n; k++ {
		cc[k] = 1
		if cost != nil {
			cc[k] = cost[k]
		}
	}
	r.points = append(r.points, point{n: n, cost: cc, label: label})
	r.Choices = append(r.Choices, c)
	return c
}

// Observe appends to the observation log (order matters).
func (r *Run) Observe(b ...byte)   { r.obs = append(r.obs, b...) }
func (r *Run) ObserveS(s string)   { r.obs = append(r.obs, s...); r.obs = append(r.obs, 0) }
func (r *Run) Observation() []byte { return r.obs }
func (r *Run) Labels() []string {
	out := make([]string, len(r.points))
	for i, p := range r.points {
		out[i] = fmt.Sprintf("%s=%d/%d", p.label, r.Choices[i], p.n)
	}
	return out
}

type divergence struct{ err error }

// Stats of one exploration.
type Stats struct {
	Executions       int64
	ChoicePoints     int64
	MaxDepth         int
	DistinctOutcomes int
	Bound            int
	CapHit           bool
	// Divergences counts replays of an already executed prefix that did not reproduce it (a source of
	// nondeterminism the body does not route through Choose, e.g. map iteration order); Abandoned counts the
	// subtrees given up after Retries further attempts. Only a Tolerant explorer continues past them.
	Divergences int64
	Abandoned   int64
}

type Explorer struct {
	Body  func(r *Run)
	Check func(r *Run) // oracle per execution
	Bound int
	Cap   int64 // max executions (0 = none)
	// Stop, if non-nil, is polled; returning true ends exploration with CapHit.
	Stop func() bool
	// Tolerant: a replay divergence is retried up to Retries times and then abandons that subtree instead of
	// ending the exploration with an error (the caller must report Divergences/Abandoned as a cap).
	Tolerant bool
	Retries  int

	stats    Stats
	outcomes map[uint64]struct{}
}

func (e *Explorer) run(prefix []int) *Run {
	r := &Run{prefix: prefix}
	func() {
		defer func() {
			if x := recover(); x != nil {
				if d, ok := x.(divergence); ok {
					r.Err = d.err
					return
				}
				panic(x)
			}
		}()
		e.Body(r)
	}()
	if r.Err == nil && len(r.Choices) < len(prefix) {
		r.Err = fmt.Errorf("replay divergence: execution ended after %d points, prefix has %d", len(r.Choices), len(prefix))
	}
	return r
}

// Replay executes exactly one choice sequence.
func (e *Explorer) Replay(choices []int) *Run { return e.run(choices) }

// Explore runs the DFS of the guidance idiom and returns the statistics.
func (e *Explorer) Explore() (Stats, error) {
	e.outcomes = map[uint64]struct{}{}
	e.stats = Stats{Bound: e.Bound}
	err := e.explore(nil, 0)
	e.stats.DistinctOutcomes = len(e.outcomes)
	return e.stats, err
}

func (e *Explorer) explore(prefix []int, spent int) error {
	if e.Cap > 0 && e.stats.Executions >= e.Cap || e.Stop != nil && e.Stop() {
		e.stats.CapHit = true
		return nil
	}
	r := e.run(prefix)
	if r.Err != nil {
		if !e.Tolerant {
			return r.Err
		}
		e.stats.Divergences++
		for k := 0; k < e.Retries && r.Err != nil; k++ {
			r = e.run(prefix)
		}
		if r.Err != nil {
			e.stats.Abandoned++
			return nil
		}
	}
	e.stats.Executions++
	e.stats.ChoicePoints += int64(len(r.points))
	if len(r.points) > e.stats.MaxDepth {
		e.stats.MaxDepth = len(r.points)
	}
	h := fnv.New64a()
	h.Write(r.obs)
	e.outcomes[h.Sum64()] = struct{}{}
	if e.Check != nil {
		e.Check(r)
	}
	for i := len(prefix); i < len(r.points); i++ {
		p := r.points[i]
		for alt := 1; alt < p.n; alt++ {
			if spent+p.cost[alt] > e.Bound {
				continue
			}
			np := make([]int, i+1)
			copy(np, r.Choices[:i])
			np[i] = alt
			if err := e.explore(np, spent+p.cost[alt]); err != nil {
				return err
			}
		}
	}
	return nil
}
