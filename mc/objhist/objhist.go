// Package objhist model-checks codec-like OBJECTS over call histories: an explicit-state BFS
// (engine E2) whose states are real implementation objects reached by sequences of
//
//	Set(k)        put value k into the object through its public surface (fields / setters)
//	Decode(k)     decode the reference encoding of value k into the (used) object
//	Encode        encode the object
//
// and whose oracle is differential against a FRESH object: whatever the history, an object that
// currently holds value k must encode exactly as a fresh object holding k does, decoding enc(k) into
// a used object must give the fields of k and consume len(enc(k)) bytes, and nothing an earlier
// Encode returned may change because of a later operation (no aliasing with internal or pooled buffers).
package objhist

import (
	"bytes"
	"fmt"
	"strings"

	"verif/mc/bfs"
	"verif/vf"
)

type Value struct {
	Name string
	Set  func(obj any)
}

type Spec struct {
	// Key prefix, e.g. "C06/history/SMB_STRING-format-0x04"
	Prefix string
	New    func() any
	Values []Value
	Encode func(obj any) ([]byte, error)
	// Decode returns the number of bytes consumed (-1 if the decoder does not report one).
	Decode func(obj any, b []byte) (int, error)
	// Fields renders the property-level content of the object (what "equal field values" means).
	Fields func(obj any) string
	Depth  int // history length explored (default 3)
	// ExtraOps are further object operations (Reset, Sum …) that must not change what the object
	// holds: after them Encode must still equal the fresh encoding of the current value.
	ExtraOps []Value
	// InputIndependence additionally demands that a decoded object does not keep referring to the
	// caller's input buffer (off by default: zero-copy decoding is not forbidden by most properties).
	InputIndependence bool
	// BadInputs are byte strings the decoder is expected to refuse (truncated, inconsistent). Decoding one
	// leaves the object in a state the oracle does not know (ghost = unknown) — but see Mutators.
	BadInputs []Bad
	// Mutators change the object through its public surface starting from WHATEVER it holds (Add, Append …).
	// Their result is not predicted; what is demanded is that the object encodes SELF-CONSISTENTLY
	// afterwards (Consistent returns "" for an encoding whose counts/lengths describe exactly the bytes
	// emitted), even when an earlier decode on the same object failed half-way.
	Mutators   []Value
	Consistent func(enc []byte) string
}

type Bad struct {
	Name  string
	Bytes []byte
}

type Stats struct{ States, Transitions int }

// Run explores all histories up to Depth and reports obligations under Prefix.
func Run(c *vf.Ctx, s Spec) Stats {
	if s.Depth == 0 {
		s.Depth = 3
	}
	K := len(s.Values)
	encs := make([][]byte, K)
	flds := make([]string, K)
	for k, v := range s.Values {
		o := s.New()
		var err error
		pan, msg, where := vf.Try(func() {
			v.Set(o)
			flds[k] = s.Fields(o)
			encs[k], err = s.Encode(o)
		})
		if pan || err != nil {
			c.Check(s.Prefix+"/fresh-object-encodes", false, func() string {
				return fmt.Sprintf("fresh object with value %s: Encode err=%v panic=%v %s %s", v.Name, err, pan, msg, where)
			})
			return Stats{}
		}
		encs[k] = append([]byte(nil), encs[k]...)
	}
	E := len(s.ExtraOps)
	nops := 2*K + 1 + E + len(s.BadInputs) + len(s.Mutators)
	opName := func(op int) string {
		switch {
		case op < K:
			return "Set(" + s.Values[op].Name + ")"
		case op < 2*K:
			return "Decode(enc(" + s.Values[op-K].Name + "))"
		case op == 2*K:
			return "Encode"
		case op < 2*K+1+E:
			return s.ExtraOps[op-2*K-1].Name
		case op < 2*K+1+E+len(s.BadInputs):
			return "Decode(" + s.BadInputs[op-2*K-1-E].Name + ")"
		default:
			return s.Mutators[op-2*K-1-E-len(s.BadInputs)].Name
		}
	}
	hist := func(path []int, op int) string {
		var l []string
		for _, p := range path {
			l = append(l, opName(p))
		}
		if op >= 0 {
			l = append(l, opName(op))
		}
		return "[" + strings.Join(l, "; ") + "]"
	}
	// apply one op; ghost = index of the value the object is supposed to hold (-1 unknown)
	apply := func(o any, ghost int, path []int, op int, check bool) int {
		switch {
		case op < K:
			s.Values[op].Set(o)
			if check {
				got := s.Fields(o)
				c.Check(s.Prefix+"/set-on-used-object-gives-the-value", got == flds[op], func() string {
					return fmt.Sprintf("history %s: fields are %s, a fresh object given the same value holds %s", hist(path, op), got, flds[op])
				})
			}
			return op
		case op < 2*K:
			k := op - K
			in := append([]byte(nil), encs[k]...)
			n, err := s.Decode(o, in)
			if check {
				got := s.Fields(o)
				c.Check(s.Prefix+"/decode-into-used-object-equals-decode-into-fresh", err == nil && got == flds[k], func() string {
					return fmt.Sprintf("history %s: decoding %x gave err=%v fields %s; want %s", hist(path, op), encs[k], err, got, flds[k])
				})
				if n >= 0 {
					c.Check(s.Prefix+"/decode-into-used-object-consumes-own-encoding", err != nil || n == len(encs[k]), func() string {
						return fmt.Sprintf("history %s: decoding %x reported %d bytes consumed, the encoding has %d", hist(path, op), encs[k], n, len(encs[k]))
					})
				}
				// the object must not keep referring to the caller's input buffer
				for i := range in {
					if !s.InputIndependence {
						break
					}
					in[i] ^= 0xA5
				}
				got2 := s.Fields(o)
				c.Check(s.Prefix+"/decoded-object-independent-of-input-buffer", got2 == got, func() string {
					return fmt.Sprintf("history %s: after the caller overwrote its input buffer the object's fields changed from %s to %s", hist(path, op), got, got2)
				})
			}
			if err != nil {
				return -1
			}
			return k
		case op == 2*K:
			b, err := s.Encode(o)
			if check && ghost >= 0 {
				c.Check(s.Prefix+"/encode-of-used-object-equals-fresh-encoding", err == nil && bytes.Equal(b, encs[ghost]), func() string {
					return fmt.Sprintf("history %s: Encode = %x err=%v; a fresh object holding %s encodes as %x", hist(path, op), b, err, s.Values[ghost].Name, encs[ghost])
				})
				got := s.Fields(o)
				c.Check(s.Prefix+"/encode-leaves-fields-unchanged", got == flds[ghost], func() string {
					return fmt.Sprintf("history %s: after Encode the fields are %s, they were %s", hist(path, op), got, flds[ghost])
				})
			}
			return ghost
		case op < 2*K+1+E:
			s.ExtraOps[op-2*K-1].Set(o)
			return ghost
		case op < 2*K+1+E+len(s.BadInputs):
			s.Decode(o, append([]byte(nil), s.BadInputs[op-2*K-1-E].Bytes...))
			return -1
		default:
			m := s.Mutators[op-2*K-1-E-len(s.BadInputs)]
			m.Set(o)
			if check && s.Consistent != nil {
				if b, err := s.Encode(o); err == nil {
					problem := s.Consistent(b)
					c.Check(s.Prefix+"/encoding-self-consistent-after-mutator", problem == "", func() string {
						return fmt.Sprintf("history %s then Encode = %x: %s", hist(path, op), b, problem)
					})
				}
			}
			return -1
		}
	}
	build := func(path []int) (any, int) {
		o := s.New()
		g := -1
		for _, p := range path {
			g = apply(o, g, nil, p, false)
		}
		return o, g
	}
	o0 := s.New()
	search := &bfs.Search{
		NOps:     nops,
		InitKey:  bfs.Dump(o0) + "|-1",
		MaxDepth: s.Depth,
		Stop:     c.DeadlineExceeded,
		Workers:  1, // objects may share package-level state (caches, pools): keep histories sequential
		Step: func(path []int, op int) (key string, enabled bool) {
			var o any
			var g int
			pan, msg, where := vf.Try(func() {
				// pass 1: the history itself, every step checked against the fresh-object oracle
				o, g = build(path)
				g = apply(o, g, path, op, true)
				if g >= 0 && op != 2*K {
					b, err := s.Encode(o)
					c.Check(s.Prefix+"/encode-of-used-object-equals-fresh-encoding", err == nil && bytes.Equal(b, encs[g]), func() string {
						return fmt.Sprintf("history %s then Encode = %x err=%v; a fresh object holding %s encodes as %x", hist(path, op), b, err, s.Values[g].Name, encs[g])
					})
				}
				// pass 2: hold what Encode returns BEFORE the operation and look at it again afterwards
				o2, g2 := build(path)
				if g2 >= 0 {
					if held, err := s.Encode(o2); err == nil {
						heldCopy := append([]byte(nil), held...)
						g2 = apply(o2, g2, path, op, false)
						if g2 >= 0 {
							s.Encode(o2)
						}
						c.Check(s.Prefix+"/earlier-encoding-unchanged-by-later-operations", bytes.Equal(held, heldCopy), func() string {
							return fmt.Sprintf("history %s; Encode returned %x; then %s (and Encode): the slice returned earlier now reads %x (it aliases memory the library keeps using)", hist(path, -1), heldCopy, opName(op), held)
						})
					}
				}
				// canonical successor state from an unperturbed replay
				o, g = build(append(append([]int{}, path...), op))
			})
			c.Check(s.Prefix+"/no-panic", !pan, func() string {
				return fmt.Sprintf("history %s panicked: %s at %s", hist(path, op), msg, where)
			})
			if pan {
				return "", false
			}
			return bfs.Dump(o) + fmt.Sprintf("|%d", g), true
		},
	}
	r := search.Run()
	c.Add("object_history_states", int64(r.States))
	c.Add("object_history_transitions", int64(r.Transitions))
	return Stats{r.States, r.Transitions}
}
