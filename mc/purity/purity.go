// Package purity explores call HISTORIES of functions that the property treats as pure (same
// input => same output): for every ordered pair (x, y) of a small input set it runs
//
//	o1 := f(x); f(y); o2 := f(x)
//
// and checks that (1) o2 equals o1's snapshot (no cache or memo keyed wrongly, no state carried
// between calls), (2) the slices returned for x still read the same after f(y) ran (results do not
// alias pooled / package-level / receiver-owned buffers), (3) scribbling over the slices returned
// for x does not change what f(x) returns next (results are the caller's own), and (4) when the
// caller recycles ITS input buffer in place for y, f(buffer) equals f(fresh copy of y) (nothing is
// remembered by reference to caller memory). All |inputs|^2 pairs are executed.
package purity

import (
	"bytes"
	"fmt"

	"verif/vf"
)

// F maps an input to its outputs. Outputs must be the actual slices the library returned
// (not copies) so that aliasing is observable; immutable results (strings, numbers) are passed
// as fresh byte slices.
type F func(in []byte) [][]byte

func snap(o [][]byte) [][]byte {
	c := make([][]byte, len(o))
	for i, b := range o {
		c[i] = append([]byte(nil), b...)
	}
	return c
}

func equal(a, b [][]byte) bool {
	if len(a) != len(b) {
		return false
	}
	for i := range a {
		if !bytes.Equal(a[i], b[i]) {
			return false
		}
	}
	return true
}

func show(o [][]byte) string {
	s := "["
	for i, b := range o {
		if i > 0 {
			s += " | "
		}
		s += vf.HexS(b)
	}
	return s + "]"
}

// Check runs all ordered pairs. prefix is the obligation key prefix, name the function's name for witnesses.
func Check(c *vf.Ctx, prefix, name string, inputs [][]byte, f F) {
	check(c, prefix, name, inputs, f, true)
}

// CheckAppendStyle is Check for functions that are documented to append to their argument (the spare
// capacity behind the input is theirs to use).
func CheckAppendStyle(c *vf.Ctx, prefix, name string, inputs [][]byte, f F) {
	check(c, prefix, name, inputs, f, false)
}

func check(c *vf.Ctx, prefix, name string, inputs [][]byte, f F, spare bool) {
	call := func(in []byte) (out [][]byte, pan bool, msg string) {
		pan, msg, _ = vf.Try(func() { out = f(in) })
		return
	}
	// reference outputs: the first call ever made for each input, each on a buffer nobody touches again
	base := make([][][]byte, len(inputs))
	keep := make([][]byte, len(inputs))
	for i, x := range inputs {
		keep[i] = append([]byte(nil), x...)
		o, p, m := call(keep[i])
		if p {
			c.Check(prefix+"/no-panic", false, func() string { return fmt.Sprintf("%s(%s) panicked: %s", name, vf.HexS(x), m) })
			return
		}
		base[i] = snap(o)
	}
	// (5) the input is the caller's: handed over as a sub-slice of a larger buffer, neither the input
	// bytes nor the spare capacity behind them may be written, and the result must be the reference one
	for i, x := range inputs {
		if !spare {
			break
		}
		big := make([]byte, len(x)+160)
		for k := range big {
			big[k] = 0xC3
		}
		copy(big, x)
		o, p, m := call(big[:len(x)])
		okIn := string(big[:len(x)]) == string(x)
		okSpare := true
		for _, b := range big[len(x):] {
			if b != 0xC3 {
				okSpare = false
			}
		}
		c.Check(prefix+"/input-and-its-spare-capacity-untouched", !p && okIn && okSpare && equal(o, base[i]), func() string {
			return fmt.Sprintf("%s(buf[:%d]) with %d bytes of spare capacity behind the input: input unchanged=%v, spare capacity unchanged=%v, result %s, first-call result %s (panic=%v %s)", name, len(x), 160, okIn, okSpare, show(o), show(base[i]), p, m)
		})
	}
	for xi, x := range inputs {
		for yi, y := range inputs {
			c.Add("purity_pairs", 1)
			o1, p1, m1 := call(append([]byte(nil), x...))
			if p1 {
				c.Check(prefix+"/no-panic", false, func() string { return fmt.Sprintf("%s(%s) panicked: %s", name, vf.HexS(x), m1) })
				continue
			}
			s1 := snap(o1)
			_, p2, m2 := call(append([]byte(nil), y...))
			if p2 {
				c.Check(prefix+"/no-panic", false, func() string { return fmt.Sprintf("%s(%s) panicked: %s", name, vf.HexS(y), m2) })
				continue
			}
			c.Check(prefix+"/earlier-result-unchanged-by-later-call", equal(o1, s1), func() string {
				return fmt.Sprintf("%s(%s) returned %s; after %s(%s) the same returned slices read %s", name, vf.HexS(x), show(s1), name, vf.HexS(y), show(o1))
			})
			o2, p3, m3 := call(append([]byte(nil), x...))
			c.Check(prefix+"/same-input-same-output-after-other-call", !p3 && equal(o2, s1) && equal(s1, base[xi]), func() string {
				return fmt.Sprintf("%s(%s) = %s; then %s(%s); then %s(%s) = %s (panic=%v %s)", name, vf.HexS(x), show(s1), name, vf.HexS(y), name, vf.HexS(x), show(o2), p3, m3)
			})
			if p3 {
				continue
			}
			// the caller overwrites what it was given (e.g. wipes a secret)
			for _, b := range o2 {
				for i := range b {
					b[i] ^= 0xFF
				}
			}
			o3, p4, m4 := call(append([]byte(nil), x...))
			c.Check(prefix+"/result-is-callers-own", !p4 && equal(o3, s1), func() string {
				return fmt.Sprintf("%s(%s) = %s; the caller overwrote the returned bytes; the next %s(%s) = %s (panic=%v %s)", name, vf.HexS(x), show(s1), name, vf.HexS(x), show(o3), p4, m4)
			})
			// the caller recycles its input buffer in place
			if len(x) == len(y) && len(x) > 0 {
				buf := append([]byte(nil), x...)
				call(append([]byte(nil), y...)) // make sure the call on buf is not answered from a memo of an earlier f(x)
				if _, p, _ := call(buf); !p {
					copy(buf, y)
					oy, p5, m5 := call(buf)
					ry, p6 := base[yi], false
					c.Check(prefix+"/input-buffer-recycled-in-place", p6 || (!p5 && equal(oy, ry)), func() string {
						return fmt.Sprintf("%s(buf=%s), then buf overwritten in place with %s: %s(buf) = %s, but the first %s of that input gave %s (panic=%v %s)", name, vf.HexS(x), vf.HexS(y), name, show(oy), name, show(ry), p5, m5)
					})
				}
			}
		}
	}
}
